#!/usr/bin/env python3
"""Driver for the dave/dst property checks.

  verif.py check <ID> [--tier quick|thorough]   run one property's check, write evidence/<ID>.json
  verif.py replay <ID> <replay-file>            re-run one saved failing case, bypassing rapid
  verif.py setup                                 pre-build every check (warms the build cache)
  verif.py list                                  list checks

Exit codes: 0 = property held on everything explored; 1 = violation (a line
"VIOLATION property=<id> replay=<path>" is printed per violation); 2 = infrastructure problem
(build failure, timeout, worker death, fewer cases than requested) - never a violation.

Environment: VERIF_SEED (int, default 1), VERIF_TIER (quick|thorough), VERIF_REPO (dave/dst tree to
check, default /repo), VERIF_JOBS (parallel shards, default = cpu count, max 16).
"""
import array, concurrent.futures, hashlib, json, os, re, shutil, subprocess, sys, time

ROOT = os.path.dirname(os.path.abspath(__file__))
GOENV = dict(GOFLAGS="-mod=mod", GOPROXY="off", GOSUMDB="off", GOTOOLCHAIN="local")
TAG = "verif"


def log(*a):
    print(*a, flush=True)


def env_base():
    e = dict(os.environ)
    e.update(GOENV)
    e["VERIF_ROOT"] = ROOT
    return e


def check_dir(pid):
    return os.path.join(ROOT, "checks", pid.lower())


def load_cfg(pid):
    with open(os.path.join(check_dir(pid), "verif.json")) as f:
        return json.load(f)


def all_checks():
    out = []
    for d in sorted(os.listdir(os.path.join(ROOT, "checks"))):
        if os.path.exists(os.path.join(ROOT, "checks", d, "verif.json")):
            out.append(d.upper())
    return out


def modfile_args(work):
    """When VERIF_REPO points somewhere else than /repo, build with an alternate go.mod."""
    repo = os.environ.get("VERIF_REPO", "/repo")
    if os.path.realpath(repo) == "/repo":
        return []
    mod = open(os.path.join(ROOT, "go.mod")).read().replace("=> /repo", "=> " + repo)
    mf = os.path.join(work, "alt.mod")
    open(mf, "w").write(mod)
    shutil.copy(os.path.join(ROOT, "go.sum"), os.path.join(work, "alt.sum"))
    return ["-modfile=" + mf]


def build(pid, cfg, work):
    binp = os.path.join(work, pid.lower() + ".test")
    cmd = ["go", "test", "-c", "-tags", TAG, "-vet=off", "-o", binp] + modfile_args(work)
    if cfg.get("race"):
        cmd.append("-race")
    cmd.append("./checks/" + pid.lower())
    t0 = time.time()
    p = subprocess.run(cmd, cwd=ROOT, env=env_base(), stdout=subprocess.PIPE, stderr=subprocess.STDOUT, text=True)
    if p.returncode != 0 or not os.path.exists(binp):
        log("BUILD FAILED (infrastructure, not a violation):")
        log(p.stdout[-4000:])
        return None
    log(f"built {pid} in {time.time()-t0:.1f}s")
    return binp


def run_proc(cmd, cwd, env, timeout, logpath):
    t0 = time.time()
    with open(logpath, "w") as lf:
        try:
            p = subprocess.run(cmd, cwd=cwd, env=env, stdout=lf, stderr=subprocess.STDOUT, timeout=timeout)
            rc = p.returncode
        except subprocess.TimeoutExpired:
            rc = -999
    return rc, time.time() - t0


VIOL_RE = re.compile(r"VERIF-VIOLATION property=(\S+) sub=(\S+) replay=(\S+)")
OK_RE = re.compile(r"\[rapid\] OK, passed (\d+) tests")


def shard_seed(seed, prop_index, i):
    v = (seed * 1000003 + prop_index * 7919 + i * 104729 + 12345) % 2147483647
    return v + 1  # never 0 (rapid: 0 = random)


def keep_replay(pid, path):
    """Copy a replay file written by a shard to /verif/replays/<ID>/found/<sha>.json."""
    try:
        data = open(path, "rb").read()
    except OSError:
        return path
    d = os.path.join(ROOT, "replays", pid, "found")
    os.makedirs(d, exist_ok=True)
    out = os.path.join(d, hashlib.sha1(data).hexdigest()[:16] + ".json")
    open(out, "wb").write(data)
    return out


def cmd_check(pid, tier):
    t_start = time.time()
    cfg = load_cfg(pid)
    seed = int(os.environ.get("VERIF_SEED", "1") or "1")
    jobs = min(16, int(os.environ.get("VERIF_JOBS", os.cpu_count() or 4)))
    work = os.path.join(ROOT, ".work", f"{pid}-{os.getpid()}")
    shutil.rmtree(work, ignore_errors=True)
    os.makedirs(os.path.join(work, "replays"))
    try:
        return run_check(pid, cfg, tier, seed, jobs, work, t_start)
    finally:
        if not os.environ.get("VERIF_KEEP_WORK"):
            shutil.rmtree(work, ignore_errors=True)


def run_check(pid, cfg, tier, seed, jobs, work, t_start):
    binp = build(pid, cfg, work)
    if binp is None:
        return 2
    cwd = check_dir(pid)
    shutil.rmtree(os.path.join(cwd, "testdata", "rapid"), ignore_errors=True)
    shutil.rmtree(os.path.join(cwd, "testdata", "fuzz"), ignore_errors=True)   # crashers of an earlier native fuzz run
    base_env = env_base()
    base_env.update(VERIF_TIER=tier, VERIF_SEED=str(seed), VERIF_REPLAY_DIR=os.path.join(work, "replays"))
    if cfg.get("race"):
        base_env["GORACE"] = "halt_on_error=0 exitcode=66"

    tasks = []  # (name, cmd, env, timeout, requested_cases)
    limit = cfg.get("timeout_s", {}).get(tier, 900 if tier == "quick" else 4 * 3600)
    # replay tier
    e = dict(base_env, VERIF_SHARD_OUT=os.path.join(work, "shard-replay.json"))
    tasks.append(("replay", [binp, "-test.run", "^TestReplay$", "-test.v", "-test.timeout=0"], e, limit, None))
    # generated tiers
    for pi, prop in enumerate(cfg.get("props", [])):
        n = int(prop[tier])
        if n <= 0:
            continue
        min_per = int(prop.get("min_per_shard", 200))
        k = max(1, min(jobs, n // min_per))
        per = [n // k + (1 if i < n % k else 0) for i in range(k)]
        for i in range(k):
            name = f"{prop['test']}-{i}"
            e = dict(base_env, VERIF_SHARD_OUT=os.path.join(work, f"shard-{name}.json"))
            if cfg.get("race"):
                e["GOMAXPROCS"] = str([2, 4, 16][i % 3])   # schedule diversity per shard, fixed for the process
            cmd = [binp, "-test.run", "^" + prop["test"] + "$", "-test.v", "-test.timeout=0",
                   f"-rapid.checks={per[i]}", f"-rapid.seed={shard_seed(seed, pi, i)}", "-rapid.nofailfile",
                   f"-rapid.shrinktime={prop.get('shrinktime', '20s')}"]
            if "steps" in prop:
                cmd.append(f"-rapid.steps={prop['steps']}")
            tasks.append((name, cmd, e, limit, per[i]))
    # native fuzzing (thorough only)
    if tier == "thorough":
        for fz in cfg.get("fuzz", []):
            name = "fuzz-" + fz["test"]
            e = dict(base_env, VERIF_SHARD_OUT=os.path.join(work, f"shard-{name}.json"))
            cmd = [binp, "-test.run", "^$", "-test.fuzz", "^" + fz["test"] + "$", f"-test.fuzztime={fz['thorough_s']}s",
                   "-test.fuzzcachedir", os.path.join(work, "fuzzcache"), "-test.v", "-test.timeout=0",
                   f"-test.parallel={max(2, jobs // 2)}"]
            tasks.append((name, cmd, e, fz["thorough_s"] + 600, None))

    results = {}
    with concurrent.futures.ThreadPoolExecutor(max_workers=jobs) as ex:
        futs = {}
        for name, cmd, e, to, req in tasks:
            lp = os.path.join(work, name + ".log")
            futs[ex.submit(run_proc, cmd, cwd, e, to, lp)] = (name, lp, req)
        for fu in concurrent.futures.as_completed(futs):
            name, lp, req = futs[fu]
            rc, wall = fu.result()
            results[name] = (rc, wall, lp, req)

    violations = []   # (sub, replay path, message)
    infra = []
    known_lines = []
    executed = 0
    for name in sorted(results):
        rc, wall, lp, req = results[name]
        out = open(lp, errors="replace").read()
        for line in out.splitlines():
            if line.startswith("KNOWN-FINDING:") and line not in known_lines:
                known_lines.append(line)
        vs = VIOL_RE.findall(out)
        if rc == 0:
            if req is not None:
                m = OK_RE.search(out)
                got = int(m.group(1)) if m else 0
                executed += got
                if got < req:
                    infra.append(f"{name}: rapid ran {got} of {req} requested cases")
            continue
        if rc == -999:
            infra.append(f"{name}: exceeded the wall-clock guard (inconclusive)")
            continue
        if vs:
            # the last marker of a sub-property is the shrunk case
            last = {}
            for (_p, sub, path) in vs:
                last[sub] = path
            for sub, path in last.items():
                msg = ""
                try:
                    msg = json.load(open(path)).get("message", "")
                except Exception:
                    pass
                kept = keep_replay(pid, path)
                if not any(v[1] == kept for v in violations):
                    violations.append((sub, kept, msg))
        elif "WARNING: DATA RACE" in out and cfg.get("race"):
            # a race report without a property failure: save the report as the replay file
            d = os.path.join(ROOT, "replays", pid, "found")
            os.makedirs(d, exist_ok=True)
            rp = os.path.join(d, "race-" + hashlib.sha1(out.encode()).hexdigest()[:12] + ".log")
            open(rp, "w").write(out)
            violations.append(("Race", rp, "data race reported by the race detector"))
        elif name.startswith("fuzz-") and "Failing input written to" in out:
            # Every call into dave/dst is made under h.Guard, which prints a violation marker for a
            # panic in dst code; a failing input without a marker is a crash of the harness or of
            # the standard library (go/format panics on some inputs) - inconclusive, not a violation.
            m = re.search(r"Failing input written to (\S+)", out)
            keep = os.path.join(ROOT, ".work", "failed-logs")
            os.makedirs(keep, exist_ok=True)
            kept = os.path.join(keep, f"{pid}-{name}-{int(time.time())}.log")
            try:
                shutil.copy(lp, kept)
                if m:
                    shutil.copy(os.path.join(cwd, m.group(1)), kept + ".input")
            except OSError:
                pass
            infra.append(f"{name}: native fuzzing stopped at an input that fails outside the guarded dst calls (log and input kept at {kept}*)")
        else:
            tail = "\n".join(out.splitlines()[-25:])
            keep = os.path.join(ROOT, ".work", "failed-logs")
            os.makedirs(keep, exist_ok=True)
            kept = os.path.join(keep, f"{pid}-{name}-{int(time.time())}.log")
            try:
                shutil.copy(lp, kept)
            except OSError:
                kept = "(log not kept)"
            infra.append(f"{name}: exit status {rc} after {wall:.0f}s without a violation marker ({len(out)} bytes of output, kept at {kept}) (harness problem):\n{tail}")

    ev = merge_evidence(pid, cfg, tier, seed, work, time.time() - t_start, len(violations), known_lines, infra)
    # runs against another dst tree (seeded changes) must not overwrite the evidence of /repo
    evdir = os.path.join(ROOT, "evidence")
    if os.path.realpath(os.environ.get("VERIF_REPO", "/repo")) != "/repo":
        evdir = os.path.join(ROOT, ".work", "evidence-other-repo")
    os.makedirs(evdir, exist_ok=True)
    with open(os.path.join(evdir, pid + ".json"), "w") as f:
        json.dump(ev, f, indent=1, sort_keys=True)
        f.write("\n")

    for l in known_lines:
        log(l)
    cov = ev["coverage"]
    log(f"{pid} tier={tier} seed={seed}: evaluations={cov['evaluations']} distinct_nontrivial={cov['distinct_nontrivial']} "
        f"excluded={sum(ev.get('excluded', {}).values())} known_finding_hits={ev.get('known_finding_hits')} wall={ev['wall_s']:.0f}s")
    if violations:
        for sub, path, msg in violations:
            log(f"VIOLATION property={pid} replay={path}")
            log(f"  sub-property {sub}: {msg[:1500]}")
        return 1
    if infra:
        log("INCONCLUSIVE (infrastructure; not a violation):")
        for i in infra:
            log("  " + i)
        return 2
    log(f"OK property={pid} held on everything explored")
    return 0


def merge_evidence(pid, cfg, tier, seed, work, wall, nviol, known_lines, infra):
    evals, excluded, labels, hits, samples, notes = {}, {}, {}, {}, {}, []
    hashes = set()
    for fn in sorted(os.listdir(work)):
        if not (fn.startswith("shard-") and fn.endswith(".json")):
            continue
        try:
            d = json.load(open(os.path.join(work, fn)))
        except Exception:
            continue
        for k, v in (d.get("evals") or {}).items():
            evals[k] = evals.get(k, 0) + v
        for k, v in (d.get("excluded") or {}).items():
            excluded[k] = excluded.get(k, 0) + v
        for k, v in (d.get("labels") or {}).items():
            labels[k] = labels.get(k, 0) + v
        for k, v in (d.get("known_finding_hits") or {}).items():
            hits[k] = hits.get(k, 0) + v
        for k, v in (d.get("samples") or {}).items():
            samples.setdefault(k, [])
            if len(samples[k]) < 3:
                samples[k].extend((v or [])[: 3 - len(samples[k])])
        notes.extend(d.get("notes") or [])
        hf = os.path.join(work, fn + ".hashes")
        if os.path.exists(hf):
            a = array.array("Q")
            with open(hf, "rb") as f:
                data = f.read()
            a.frombytes(data[: len(data) // 8 * 8])
            hashes.update(a)
    flat_samples = []
    for k in sorted(samples):
        for s in samples[k]:
            flat_samples.append({"sub_property": k, "case": s})
    total = sum(evals.values())
    ev = {
        "property_id": pid,
        "tier": tier,
        "seed": seed,
        "level": cfg.get("level", "exploration"),
        "coverage": {
            "evaluations": total,
            "distinct_nontrivial": len(hashes),
            "rule": cfg.get("rule", ""),
            "samples": flat_samples or [{"note": "no samples recorded"}],
            "evaluations_by_sub_property": evals,
        },
        "excluded": excluded,
        "labels": labels,
        "known_finding_hits": hits,
        "known_finding_lines": known_lines,
        "assumptions": cfg.get("assumptions", []),
        "notes": sorted(set(notes))[:50],
        "infrastructure_problems": infra,
        "wall_s": round(wall, 2),
        "violations": nviol,
        "repo": os.environ.get("VERIF_REPO", "/repo"),
    }
    return ev


def cmd_replay(pid, path):
    cfg = load_cfg(pid)
    work = os.path.join(ROOT, ".work", f"{pid}-replay-{os.getpid()}")
    shutil.rmtree(work, ignore_errors=True)
    os.makedirs(os.path.join(work, "replays"))
    try:
        binp = build(pid, cfg, work)
        if binp is None:
            return 2
        if path.endswith(".log"):
            log("race reports are not re-runnable inputs; see the file for the history")
            return 2
        e = env_base()
        e.update(VERIF_REPLAY_FILE=os.path.abspath(path), VERIF_REPLAY_DIR=os.path.join(work, "replays"))
        lp = os.path.join(work, "replay.log")
        rc, _ = run_proc([binp, "-test.run", "^TestReplayFile$", "-test.v", "-test.timeout=600s"], check_dir(pid), e, 700, lp)
        out = open(lp, errors="replace").read()
        if rc == 0:
            log(f"replay of {path}: property held (no violation)")
            return 0
        if VIOL_RE.search(out):
            log(f"VIOLATION property={pid} replay={path}")
            m = re.search(r"VERIF-VIOLATION[^\n]*\n(.*)", out, re.S)
            if m:
                log(m.group(1)[:3000])
            return 1
        log(out[-3000:])
        return 2
    finally:
        shutil.rmtree(work, ignore_errors=True)


def cmd_setup():
    e = env_base()
    p = subprocess.run(["go", "build", "./..."], cwd=ROOT, env=e)
    if p.returncode != 0:
        return 2
    work = os.path.join(ROOT, ".work", "setup")
    os.makedirs(work, exist_ok=True)
    rc = 0
    for pid in all_checks():
        if build(pid, load_cfg(pid), work) is None:
            rc = 2
    shutil.rmtree(work, ignore_errors=True)
    return rc


def main():
    a = sys.argv[1:]
    if not a:
        print(__doc__)
        return 2
    if a[0] == "setup":
        return cmd_setup()
    if a[0] == "list":
        for c in all_checks():
            print(c)
        return 0
    if a[0] == "check":
        tier = os.environ.get("VERIF_TIER", "quick")
        if "--tier" in a:
            tier = a[a.index("--tier") + 1]
        if tier not in ("quick", "thorough"):
            tier = "quick"
        return cmd_check(a[1].upper(), tier)
    if a[0] == "replay":
        return cmd_replay(a[1].upper(), a[2])
    print(__doc__)
    return 2


if __name__ == "__main__":
    sys.exit(main())
