// C19 — decoration lists behave as plain ordered lists without aliasing.
// Oracle: a []string reference model, checked after every call; finally the list is rendered.
package c19

import (
	"bytes"
	"fmt"
	"reflect"
	"strings"
	"testing"

	"github.com/dave/dst"
	"github.com/dave/dst/decorator"
	"pgregory.net/rapid"

	"verif/internal/h"
	"verif/internal/known"
	"verif/internal/oracle"
)

func TestMain(m *testing.M) { h.Main(m, "C19") }

// Op is one call on the list.
type Op struct {
	Kind   string   `json:"kind"`   // Append | Prepend | Replace | Clear | All
	Args   []string `json:"args"`   // argument values
	Cap    int      `json:"cap"`    // spare capacity of the argument slice
	Shared bool     `json:"shared"` // argument is a sub-slice of a larger caller-owned array
	Own    bool     `json:"own"`    // argument is (a tail of) the list's own All() result
	From   int      `json:"from"`   // with Own: the argument is All()[From%(len+1):]
	Hold   bool     `json:"hold"`   // the caller keeps the slice All() returned before this call and expects it untouched
	Mutate bool     `json:"mutate"` // caller overwrites its argument slice (and its spare capacity) after the call
}

type Case struct {
	Initial []string `json:"initial"`
	Ops     []Op     `json:"ops"`
	Point   int      `json:"point"` // where the list is rendered: 0 GenDecl.Start, 1 GenDecl.End (line), 2 Ident.End, 3 File.Start, 4 any list of any node of renderSrc
	Node    int      `json:"node"`  // with Point 4: node ordinal (dst.Inspect order, modulo)
	Field   int      `json:"field"` // with Point 4: ordinal of the list among the node's Decs fields (modulo)
}

// renderSrc has no comments of its own and contains every statement, declaration and expression
// form, including the ones with optional parts absent (value-less range, bare return, ...).
const renderSrc = `package p

import (
	"fmt"
	q "os"
)

type T[P any, Q interface{ ~int | string }] struct {
	A, B int ` + "`tag`" + `
	P
}

type I interface {
	M(a int, b ...string) (x, y error)
	fmt.Stringer
}

type A = []map[string]chan<- func(*T[int, int]) [3]I

const c, d = iota, 1 << 2

var v = [...]T[int, int]{1: {A: 1}, {}}

func (t *T[P, Q]) m(a, b P, fs ...func()) (r int, err error) {
	for range a {
	}
	for k := range b {
		_ = k
	}
	for k, x := range fs {
		_, _ = k, x
	}
	for i := 0; i < 3; i++ {
		continue
	}
	for {
		break
	}
L:
	for a != nil {
		goto L
	}
	if x := f(); x {
	} else if y {
	} else {
	}
	switch {
	}
	switch x := y.(type) {
	case int, string:
	default:
	}
	switch y := 1; y {
	case 1:
		fallthrough
	default:
	}
	select {
	case <-ch:
	case x := <-ch:
	case ch <- 1:
	default:
	}
	go f()
	defer func() {}()
	x++
	x += y[1:2:3] + z[:] + (*p).q.(int) + -w + g[int](1, xs...)
	var _ = struct{}{}
	;
	{
	}
	return
	return 1, q.ErrNotExist
}

func decl()
`

// decsLists returns the decoration lists of a node in declaration order of its Decs struct.
func decsLists(n dst.Node) []*dst.Decorations {
	v := reflect.ValueOf(n).Elem().FieldByName("Decs")
	if !v.IsValid() {
		return nil
	}
	var out []*dst.Decorations
	var walk func(v reflect.Value)
	walk = func(v reflect.Value) {
		for i := 0; i < v.NumField(); i++ {
			f := v.Field(i)
			if d, ok := f.Addr().Interface().(*dst.Decorations); ok {
				out = append(out, d)
			} else if f.Kind() == reflect.Struct {
				walk(f) // the embedded NodeDecs
			}
		}
	}
	walk(v)
	return out
}

func eq(a, b []string) bool {
	if len(a) != len(b) {
		return false
	}
	for i := range a {
		if a[i] != b[i] {
			return false
		}
	}
	return true
}

func check(t h.TB, c Case) {
	const sub = "ListModel"
	var d dst.Decorations
	var model []string
	if c.Initial != nil {
		d = append(dst.Decorations{}, c.Initial...)
		model = append([]string{}, c.Initial...)
	}
	for i, op := range c.Ops {
		// build the caller's argument
		var arg []string
		var whole []string
		var held, heldSnap []string
		if op.Hold {
			held = d.All()
			heldSnap = append([]string{}, held...)
		}
		switch {
		case op.Own:
			arg = d.All()
			arg = arg[op.From%(len(arg)+1):]
		case op.Shared:
			whole = make([]string, len(op.Args)+4)
			for j := range whole {
				whole[j] = fmt.Sprintf("/*caller%d*/", j)
			}
			copy(whole[2:], op.Args)
			arg = whole[2 : 2+len(op.Args)] // cap extends into the caller's array
		default:
			arg = make([]string, len(op.Args), len(op.Args)+op.Cap)
			copy(arg, op.Args)
		}
		snapshot := append([]string{}, arg...)
		var wholeSnap []string
		if whole != nil {
			wholeSnap = append([]string{}, whole...)
		}
		h.Guard(t, sub, c, func() {
			switch op.Kind {
			case "Append":
				d.Append(arg...)
				model = append(append([]string{}, model...), snapshot...)
			case "Prepend":
				d.Prepend(arg...)
				model = append(append([]string{}, snapshot...), model...)
			case "Replace":
				d.Replace(arg...)
				model = append([]string{}, snapshot...)
			case "Clear":
				d.Clear()
				model = nil
			case "All":
				_ = d.All()
			}
		})
		if !eq(d.All(), model) {
			h.Fail(t, sub, c, "after op %d (%s): list = %q, model = %q", i, op.Kind, d.All(), model)
		}
		if len(d) != len(model) {
			h.Fail(t, sub, c, "after op %d (%s): len %d, model %d", i, op.Kind, len(d), len(model))
		}
		if op.Own && !eq(arg, snapshot) {
			h.Fail(t, sub, c, "op %d (%s) modified its argument (a slice of the list's own All()): %q -> %q", i, op.Kind, snapshot, arg)
		}
		if op.Hold && !eq(held, heldSnap) {
			h.Fail(t, sub, c, "op %d (%s) modified the slice All() had returned before the call: %q -> %q", i, op.Kind, heldSnap, held)
		}
		if !op.Own {
			if !eq(arg, snapshot) {
				h.Fail(t, sub, c, "op %d (%s) modified the caller's argument slice: %q -> %q", i, op.Kind, snapshot, arg)
			}
			if whole != nil && !eq(whole, wholeSnap) {
				h.Fail(t, sub, c, "op %d (%s) wrote into the caller's backing array: %q -> %q", i, op.Kind, wholeSnap, whole)
			}
		}
		if op.Mutate && !op.Own {
			for j := range arg {
				arg[j] = "/*MUTATED*/"
			}
			if cap(arg) > len(arg) {
				ext := arg[:cap(arg)]
				for j := len(arg); j < len(ext); j++ {
					ext[j] = "/*SPARE*/"
				}
			}
			for j := range whole {
				whole[j] = "/*MUTATED*/"
			}
			if !eq(d.All(), model) {
				h.Fail(t, sub, c, "op %d (%s) retained the caller's slice: mutating it afterwards changed the list to %q (model %q)", i, op.Kind, d.All(), model)
			}
		}
	}
	// what All returns is what is rendered
	f, err := decorator.Parse("package p\n\nvar x int\n")
	if err != nil {
		t.Fatalf("harness: %v", err)
	}
	if c.Point == 4 {
		f, err = decorator.Parse(renderSrc)
		if err != nil {
			t.Fatalf("harness: %v", err)
		}
		var nodes []dst.Node
		dst.Inspect(f, func(n dst.Node) bool {
			if n != nil && len(decsLists(n)) > 0 {
				nodes = append(nodes, n)
			}
			return true
		})
		n := nodes[c.Node%len(nodes)]
		lists := decsLists(n)
		*lists[c.Field%len(lists)] = d
		h.LabelN("render:"+strings.TrimPrefix(fmt.Sprintf("%T", n), "*dst."), 1)
	}
	gd := f.Decls[0].(*dst.GenDecl)
	switch c.Point {
	case 4:
	case 0:
		gd.Decs.Start = d
	case 1:
		gd.Decs.End = d
	case 2:
		gd.Specs[0].(*dst.ValueSpec).Names[0].Decs.End = d
	default:
		f.Decs.Start = d
	}
	var buf bytes.Buffer
	h.Guard(t, sub, c, func() { err = decorator.Fprint(&buf, f) })
	if err != nil && c.Point == 4 {
		// format.Node re-parses a file with an import group; a line break at an arbitrary point
		// ("q <newline> \"os\"", "a <newline> int") is a semicolon there: the caller's mistake, not dst's
		for _, s := range d.All() {
			if s == "\n" || strings.HasPrefix(s, "//") {
				h.Exclude("line break where the grammar does not allow one")
				return
			}
		}
	}
	if err != nil {
		h.Fail(t, sub, c, "Fprint: %v", err)
	}
	_, got, ok := oracle.Scan(buf.Bytes())
	if !ok {
		h.Fail(t, sub, c, "output does not scan:\n%s", buf.Bytes())
	}
	var want []string
	for _, s := range d.All() {
		if s != "\n" {
			want = append(want, s)
		}
	}
	if diff := oracle.DiffStrings(want, got); diff != "" {
		h.Fail(t, sub, c, "rendered comments differ from All() (point %d): %s\n%s", c.Point, diff, buf.Bytes())
	}
}

func genCase(t *rapid.T) (Case, bool) {
	const sub = "ListModel"
	n := 0
	val := func() string {
		n++
		switch rapid.IntRange(0, 3).Draw(t, "val") {
		case 0:
			return fmt.Sprintf("// c%d", n)
		case 1:
			return "\n"
		default:
			return fmt.Sprintf("/*c%d*/", n)
		}
	}
	vals := func(lo, hi int) []string {
		k := rapid.IntRange(lo, hi).Draw(t, "nargs")
		out := make([]string, 0, k)
		for i := 0; i < k; i++ {
			out = append(out, val())
		}
		return out
	}
	c := Case{Point: rapid.IntRange(0, 7).Draw(t, "point")}
	if c.Point >= 4 {
		c.Point = 4
		c.Node = rapid.IntRange(0, 399).Draw(t, "node")
		c.Field = rapid.IntRange(0, 11).Draw(t, "field")
	}
	if rapid.Bool().Draw(t, "init") {
		c.Initial = vals(0, 3)
	}
	nops := rapid.IntRange(1, 12).Draw(t, "nops")
	nontrivial := false
	var sig []string
	for i := 0; i < nops; i++ {
		op := Op{Kind: []string{"Append", "Prepend", "Replace", "Clear", "All", "Append", "Prepend", "Replace"}[rapid.IntRange(0, 7).Draw(t, "kind")]}
		if op.Kind != "Clear" && op.Kind != "All" {
			switch rapid.IntRange(0, 5).Draw(t, "argkind") {
			case 0:
				op.Own = true
				op.From = rapid.IntRange(0, 4).Draw(t, "from")
			case 1:
				op.Shared = true
				op.Args = vals(0, 4)
			default:
				op.Args = vals(0, 4)
				op.Cap = rapid.IntRange(0, 3).Draw(t, "cap")
			}
			op.Mutate = rapid.Bool().Draw(t, "mutate")
			op.Hold = rapid.IntRange(0, 3).Draw(t, "hold") == 0
			if (op.Cap > 0 || op.Shared || op.Mutate) && len(op.Args) > 0 {
				nontrivial = true
			}
		}
		h.Label("op:" + op.Kind)
		sig = append(sig, fmt.Sprintf("%s/%d/%d/%v/%v/%v", op.Kind, len(op.Args), op.Cap, op.Shared, op.Own, op.Mutate))
		c.Ops = append(c.Ops, op)
	}
	if nontrivial {
		h.NonTrivial(sub, strings.Join(sig, ";"), strings.Join(c.Initial, ","), fmt.Sprint(c.Point))
	}
	h.Sample(sub, c)
	return c, true
}

var prop = h.Prop("ListModel", genCase, check)

func TestPropListModel(t *testing.T) { rapid.Check(t, prop) }

func TestReplay(t *testing.T) {
	known.RunRegressions(t, "C19")
	// fixed examples: prepend/replace with a spare-capacity argument, self-append
	for _, c := range []Case{
		{Ops: []Op{{Kind: "Append", Args: []string{"// a"}, Cap: 2, Mutate: true}, {Kind: "Prepend", Args: []string{"/*b*/"}, Cap: 3, Mutate: true}, {Kind: "Replace", Args: []string{"// c", "\n"}, Shared: true, Mutate: true}}},
		{Initial: []string{"// a", "// b", "// c"}, Ops: []Op{{Kind: "Replace", Own: true, From: 1, Hold: true}, {Kind: "Replace", Args: []string{"/*z*/"}, Hold: true}}},
		{Initial: []string{"// a"}, Ops: []Op{{Kind: "Append", Own: true}, {Kind: "Prepend", Own: true}, {Kind: "Clear"}, {Kind: "Append", Args: []string{"/*x*/"}, Shared: true, Mutate: true}}},
	} {
		h.Eval("Fixed")
		check(t, c)
	}
	h.NonTrivial("Fixed", "1")
	h.NonTrivial("Fixed", "2")
}

func TestReplayFile(t *testing.T) { h.TestReplayEnv(t) }
