// C18 — object and scope graphs survive decoration and optional restoration.
// Oracle: go/parser's own identifier-resolution graph (canonical signature), and go/ast.NewPackage.
package c18

import (
	"fmt"
	"go/ast"
	"go/parser"
	"go/scanner"
	"go/token"
	"os"
	"reflect"
	"sort"
	"strings"
	"testing"

	"github.com/dave/dst"
	"github.com/dave/dst/decorator"
	"pgregory.net/rapid"

	"verif/internal/gen"
	"verif/internal/h"
	"verif/internal/known"
)

func TestMain(m *testing.M) { h.Main(m, "C18") }

type Case struct {
	Srcs map[string]string `json:"srcs"` // file name -> source (1 file for the graph check, 1-3 for NewPackage)
	From string            `json:"from,omitempty"`
	// Resolved: before decoration the file's identifier resolution is completed with
	// go/ast.NewPackage, an importer and a universe scope: package names then carry Pkg objects whose
	// Data is the imported package's scope, predeclared names carry off-tree universe objects.
	Resolved bool `json:"resolved,omitempty"`
	// LocalPaths: the file is decorated by an import-managing Decorator with ResolveLocalPath set and
	// a resolver that reports the package's own path for every identifier that refers to a local
	// object: identifiers then carry a Path, and must keep their objects all the same.
	LocalPaths bool `json:"local_paths,omitempty"`
}

const selfPath = "example.com/self"

// localResolver reports the local package path for identifiers bound to an object of the file.
type localResolver struct{}

func (localResolver) ResolveIdent(file *ast.File, parent ast.Node, parentField string, id *ast.Ident) (string, error) {
	if _, isSel := parent.(*ast.SelectorExpr); isSel {
		return "", nil
	}
	if id.Obj != nil {
		return selfPath, nil
	}
	return "", nil
}

// ---- canonical signature of an identifier-resolution graph (generic over ast / dst by reflection) ----

type sigBuilder struct {
	nodeIdx  map[interface{}]int // tree node -> index in traversal order
	objNum   map[interface{}]int
	scopeNum map[interface{}]int
	sb       strings.Builder
}

func isNilPtr(x interface{}) bool {
	if x == nil {
		return true
	}
	v := reflect.ValueOf(x)
	return (v.Kind() == reflect.Ptr || v.Kind() == reflect.Interface || v.Kind() == reflect.Map) && v.IsNil()
}

func typeName(x interface{}) string {
	s := fmt.Sprintf("%T", x)
	return s[strings.LastIndex(s, ".")+1:]
}

// object returns the signature of an *ast.Object / *dst.Object, numbering objects at first sight.
func (b *sigBuilder) object(o interface{}) string {
	if isNilPtr(o) {
		return "-"
	}
	if n, ok := b.objNum[o]; ok {
		return fmt.Sprintf("o%d", n)
	}
	n := len(b.objNum) + 1
	b.objNum[o] = n
	v := reflect.ValueOf(o).Elem()
	kind := fmt.Sprint(v.FieldByName("Kind").Interface())
	name := v.FieldByName("Name").String()
	decl := b.ref(v.FieldByName("Decl").Interface())
	data := b.ref(v.FieldByName("Data").Interface())
	return fmt.Sprintf("o%d{%s %s decl=%s data=%s}", n, kind, name, decl, data)
}

// ref describes what Decl / Data point to.
func (b *sigBuilder) ref(x interface{}) string {
	if isNilPtr(x) {
		return "nil"
	}
	switch typeName(x) {
	case "Scope":
		return b.scope(x)
	case "int":
		return fmt.Sprintf("int:%d", x)
	}
	if i, ok := b.nodeIdx[x]; ok {
		return fmt.Sprintf("node#%d:%s", i, typeName(x))
	}
	return "off-tree:" + typeName(x)
}

func (b *sigBuilder) scope(s interface{}) string {
	if isNilPtr(s) {
		return "nil"
	}
	if n, ok := b.scopeNum[s]; ok {
		return fmt.Sprintf("s%d", n)
	}
	n := len(b.scopeNum) + 1
	b.scopeNum[s] = n
	v := reflect.ValueOf(s).Elem()
	outer := b.scope(v.FieldByName("Outer").Interface())
	objs := v.FieldByName("Objects")
	var names []string
	for _, k := range objs.MapKeys() {
		names = append(names, k.String())
	}
	sort.Strings(names)
	var parts []string
	for _, k := range names {
		parts = append(parts, k+"="+b.object(objs.MapIndex(reflect.ValueOf(k)).Interface()))
	}
	return fmt.Sprintf("s%d{outer=%s %s}", n, outer, strings.Join(parts, " "))
}

func astSig(f *ast.File) string {
	b := &sigBuilder{nodeIdx: map[interface{}]int{}, objNum: map[interface{}]int{}, scopeNum: map[interface{}]int{}}
	var idents []*ast.Ident
	i := 0
	ast.Inspect(f, func(n ast.Node) bool {
		switch n.(type) {
		case nil:
			return true
		case *ast.Comment, *ast.CommentGroup:
			return false
		}
		b.nodeIdx[n] = i
		i++
		if id, ok := n.(*ast.Ident); ok {
			idents = append(idents, id)
		}
		return true
	})
	for _, id := range idents {
		fmt.Fprintf(&b.sb, "%d %s -> %s\n", b.nodeIdx[id], id.Name, b.object(id.Obj))
	}
	fmt.Fprintf(&b.sb, "filescope %s\n", b.scope(f.Scope))
	return b.sb.String()
}

func dstSig(f *dst.File) string {
	b := &sigBuilder{nodeIdx: map[interface{}]int{}, objNum: map[interface{}]int{}, scopeNum: map[interface{}]int{}}
	var idents []*dst.Ident
	i := 0
	dst.Inspect(f, func(n dst.Node) bool {
		if n == nil {
			return true
		}
		b.nodeIdx[n] = i
		i++
		if id, ok := n.(*dst.Ident); ok {
			idents = append(idents, id)
		}
		return true
	})
	for _, id := range idents {
		fmt.Fprintf(&b.sb, "%d %s -> %s\n", b.nodeIdx[id], id.Name, b.object(id.Obj))
	}
	fmt.Fprintf(&b.sb, "filescope %s\n", b.scope(f.Scope))
	return b.sb.String()
}

func firstDiff(a, b string) string {
	al, bl := strings.Split(a, "\n"), strings.Split(b, "\n")
	for i := 0; i < len(al) && i < len(bl); i++ {
		if al[i] != bl[i] {
			return fmt.Sprintf("line %d: go/parser graph %q, other side %q", i, al[i], bl[i])
		}
	}
	return fmt.Sprintf("%d vs %d lines", len(al), len(bl))
}

func checkGraph(sub string) func(t h.TB, c Case) {
	return func(t h.TB, c Case) {
		for name, src := range c.Srcs {
			fset := token.NewFileSet()
			af, err := parser.ParseFile(fset, name, src, parser.ParseComments)
			if err != nil {
				t.Fatalf("harness: %v", err)
			}
			if c.Resolved {
				imports := map[string]*ast.Object{}
				ast.NewPackage(fset, map[string]*ast.File{name: af}, func(m map[string]*ast.Object, path string) (*ast.Object, error) {
					return astImporter(imports, path)
				}, astUniverse())
			}
			want := astSig(af)
			dec := decorator.NewDecorator(fset)
			if c.LocalPaths {
				dec = decorator.NewDecoratorWithImports(fset, selfPath, localResolver{})
				dec.ResolveLocalPath = true
			}
			var df *dst.File
			h.Guard(t, sub, c, func() { df, err = dec.DecorateFile(af) })
			if err != nil {
				h.Fail(t, sub, c, "DecorateFile: %v", err)
			}
			if got := dstSig(df); got != want {
				h.Fail(t, sub, c, "%s: the dst object/scope graph is not isomorphic to go/parser's: %s", name, firstDiff(want, got))
			}
			// the Objects / Scopes maps relate exactly the objects of the two graphs
			for ao, do := range dec.Dst.Objects {
				if dec.Ast.Objects[do] != ao {
					h.Fail(t, sub, c, "%s: Objects maps are not inverse for %s", name, ao.Name)
				}
			}
			for as, ds := range dec.Dst.Scopes {
				if dec.Ast.Scopes[ds] != as {
					h.Fail(t, sub, c, "%s: Scopes maps are not inverse", name)
				}
			}
			if c.LocalPaths {
				paths := 0
				dst.Inspect(df, func(n dst.Node) bool {
					if id, ok := n.(*dst.Ident); ok && id.Path != "" {
						paths++
					}
					return true
				})
				h.LabelN("graph:identifiers-with-local-path", paths)
				continue // (an import-managing restore would prune the unused imports of the generated file)
			}
			// restoring with Extras rebuilds an isomorphic graph on the ast side
			r := decorator.NewRestorer()
			r.Extras = true
			var rf *ast.File
			h.Guard(t, sub, c, func() { rf, err = r.RestoreFile(df) })
			if err != nil {
				h.Fail(t, sub, c, "RestoreFile(Extras): %v", err)
			}
			if got := astSig(rf); got != want {
				h.Fail(t, sub, c, "%s: the graph rebuilt by Restorer{Extras:true} is not isomorphic to go/parser's: %s", name, firstDiff(want, got))
			}
			// without Extras no object links are created
			rf2, err := decorator.NewRestorer().RestoreFile(dec2(t, name, src))
			if err != nil {
				h.Fail(t, sub, c, "RestoreFile: %v", err)
			}
			ast.Inspect(rf2, func(n ast.Node) bool {
				if id, ok := n.(*ast.Ident); ok && id.Obj != nil {
					h.Fail(t, sub, c, "%s: Restorer without Extras set Obj on %s", name, id.Name)
				}
				return true
			})
		}
	}
}

func dec2(t h.TB, name, src string) *dst.File {
	f, err := decorator.Parse(src)
	if err != nil {
		t.Fatalf("harness: %v", err)
	}
	return f
}

// ---- NewPackage ----

var universeNames = []string{"int", "string", "bool", "error", "byte", "any", "float64", "len", "make", "append", "panic", "new", "nil", "true", "false", "iota"}

func astUniverse() *ast.Scope {
	s := ast.NewScope(nil)
	for _, n := range universeNames {
		s.Insert(ast.NewObj(ast.Typ, n))
	}
	return s
}

func dstUniverse() *dst.Scope {
	s := dst.NewScope(nil)
	for _, n := range universeNames {
		s.Insert(dst.NewObj(dst.Typ, n))
	}
	return s
}

var importable = map[string][]string{"fmt": {"Println", "Sprint"}, "os": {"Args", "File"}, "strings": {"Reader"}, "io": {"Reader"}, "a/pkg": {"F", "T"}, "example.com/b/pkg": {"F", "G"}, "gopkg.in/yaml.v2": {"Marshal"}}

func lastElem(p string) string {
	n := p[strings.LastIndex(p, "/")+1:]
	if n == "yaml.v2" {
		return "yaml"
	}
	return n
}

func astImporter(imports map[string]*ast.Object, path string) (*ast.Object, error) {
	if o, ok := imports[path]; ok {
		return o, nil
	}
	names, ok := importable[path]
	if !ok {
		return nil, fmt.Errorf("not found")
	}
	o := ast.NewObj(ast.Pkg, lastElem(path))
	sc := ast.NewScope(nil)
	for _, n := range names {
		sc.Insert(ast.NewObj(ast.Fun, n))
	}
	o.Data = sc
	imports[path] = o
	return o, nil
}

func dstImporter(imports map[string]*dst.Object, path string) (*dst.Object, error) {
	if o, ok := imports[path]; ok {
		return o, nil
	}
	names, ok := importable[path]
	if !ok {
		return nil, fmt.Errorf("not found")
	}
	o := dst.NewObj(dst.Pkg, lastElem(path))
	sc := dst.NewScope(nil)
	for _, n := range names {
		sc.Insert(dst.NewObj(dst.Fun, n))
	}
	o.Data = sc
	imports[path] = o
	return o, nil
}

func errMsgs(err error) []string {
	var out []string
	if err == nil {
		return out
	}
	if el, ok := err.(scanner.ErrorList); ok {
		for _, e := range el {
			// positions aside: go/ast appends "\n\tprevious declaration at <pos>"
			out = append(out, strings.SplitN(e.Msg, "\n", 2)[0])
		}
	} else {
		out = append(out, err.Error())
	}
	sort.Strings(out)
	return out
}

type PkgCase struct {
	Srcs        map[string]string `json:"srcs"`
	NoImporter  bool              `json:"no_importer"`
	NilUniverse bool              `json:"nil_universe"`
}

func checkPkg(t h.TB, c PkgCase) {
	const sub = "NewPackage"
	fset := token.NewFileSet()
	afiles := map[string]*ast.File{}
	dfiles := map[string]*dst.File{}
	dec := decorator.NewDecorator(fset)
	var names []string
	for n := range c.Srcs {
		names = append(names, n)
	}
	sort.Strings(names)
	for _, n := range names {
		af, err := parser.ParseFile(fset, n, c.Srcs[n], parser.ParseComments)
		if err != nil {
			t.Fatalf("harness: %v", err)
		}
		df, err := dec.DecorateFile(af)
		if err != nil {
			h.Fail(t, sub, c, "DecorateFile: %v", err)
		}
		// the corresponding unresolved-identifier list
		for _, id := range af.Unresolved {
			d, ok := dec.Dst.Nodes[id].(*dst.Ident)
			if !ok {
				h.Fail(t, sub, c, "unresolved identifier %s has no dst counterpart", id.Name)
			}
			df.Unresolved = append(df.Unresolved, d)
		}
		afiles[n], dfiles[n] = af, df
	}
	var ai ast.Importer = astImporter
	var di dst.Importer = dstImporter
	if c.NoImporter {
		ai, di = nil, nil
	}
	au, du := astUniverse(), dstUniverse()
	if c.NilUniverse {
		au, du = nil, nil
	}
	apkg, aerr := ast.NewPackage(fset, afiles, ai, au)
	var dpkg *dst.Package
	var derr error
	h.Guard(t, sub, c, func() { dpkg, derr = dst.NewPackage(fset, dfiles, di, du) })
	if apkg.Name != dpkg.Name {
		// with files of different packages the chosen name depends on map order in both worlds
		h.Label("package-name-depends-on-map-order")
		return
	}
	if fmt.Sprint(errMsgs(aerr)) != fmt.Sprint(errMsgs(derr)) {
		h.Fail(t, sub, c, "reports differ: go/ast %v, dst %v", errMsgs(aerr), errMsgs(derr))
	}
	// package scope: same names and kinds, same nesting
	// (which of two conflicting declarations stays in the scope depends on map iteration order
	// in both implementations: names reported as redeclared are compared by name only)
	redeclared := map[string]bool{}
	for _, m := range errMsgs(aerr) {
		if strings.HasSuffix(m, " redeclared in this block") {
			redeclared[strings.TrimSuffix(m, " redeclared in this block")] = true
		}
	}
	an, dn := scopeNamesExcept(reflect.ValueOf(apkg.Scope), redeclared), scopeNamesExcept(reflect.ValueOf(dpkg.Scope), redeclared)
	if an != dn {
		h.Fail(t, sub, c, "package scope differs: go/ast %s, dst %s", an, dn)
	}
	if (apkg.Scope.Outer == nil) != (dpkg.Scope.Outer == nil) {
		h.Fail(t, sub, c, "package scope nesting differs: go/ast outer==nil is %v, dst %v", apkg.Scope.Outer == nil, dpkg.Scope.Outer == nil)
	}
	if apkg.Scope.Outer != nil && scopeNames(reflect.ValueOf(apkg.Scope.Outer)) != scopeNames(reflect.ValueOf(dpkg.Scope.Outer)) {
		h.Fail(t, sub, c, "the package scope's outer scope is not the universe on the dst side")
	}
	var ai2, di2 []string
	for k := range apkg.Imports {
		ai2 = append(ai2, k)
	}
	for k := range dpkg.Imports {
		di2 = append(di2, k)
	}
	sort.Strings(ai2)
	sort.Strings(di2)
	if fmt.Sprint(ai2) != fmt.Sprint(di2) {
		h.Fail(t, sub, c, "Package.Imports differ: %v vs %v", ai2, di2)
	}
	// remaining unresolved names and the resolution of every identifier
	for _, n := range names {
		var ua, ud []string
		for _, id := range afiles[n].Unresolved {
			ua = append(ua, id.Name)
		}
		for _, id := range dfiles[n].Unresolved {
			ud = append(ud, id.Name)
		}
		if fmt.Sprint(ua) != fmt.Sprint(ud) {
			h.Fail(t, sub, c, "%s: remaining unresolved identifiers differ: go/ast %v, dst %v", n, ua, ud)
		}
		var ra, rd []string
		ast.Inspect(afiles[n], func(x ast.Node) bool {
			if id, ok := x.(*ast.Ident); ok {
				k := "-"
				if id.Obj != nil {
					k = id.Obj.Kind.String() + ":" + id.Obj.Name
					if redeclared[id.Obj.Name] {
						k = "redeclared:" + id.Obj.Name
					}
				}
				ra = append(ra, id.Name+"="+k)
			}
			return true
		})
		dst.Inspect(dfiles[n], func(x dst.Node) bool {
			if id, ok := x.(*dst.Ident); ok {
				k := "-"
				if id.Obj != nil {
					k = id.Obj.Kind.String() + ":" + id.Obj.Name
					if redeclared[id.Obj.Name] {
						k = "redeclared:" + id.Obj.Name
					}
				}
				rd = append(rd, id.Name+"="+k)
			}
			return true
		})
		if fmt.Sprint(ra) != fmt.Sprint(rd) {
			for i := range ra {
				if i >= len(rd) || ra[i] != rd[i] {
					h.Fail(t, sub, c, "%s: identifier %d resolves to %s in go/ast, %s in dst", n, i, ra[i], rd[min(i, len(rd)-1)])
				}
			}
		}
	}
}

func scopeNamesExcept(s reflect.Value, nameOnly map[string]bool) string {
	if s.IsNil() {
		return "nil"
	}
	objs := s.Elem().FieldByName("Objects")
	var out []string
	for _, k := range objs.MapKeys() {
		o := objs.MapIndex(k).Elem()
		if nameOnly[k.String()] {
			out = append(out, k.String())
		} else {
			out = append(out, fmt.Sprintf("%s:%v", k.String(), o.FieldByName("Kind").Interface()))
		}
	}
	sort.Strings(out)
	return strings.Join(out, ",")
}

func scopeNames(s reflect.Value) string {
	if s.IsNil() {
		return "nil"
	}
	objs := s.Elem().FieldByName("Objects")
	var out []string
	for _, k := range objs.MapKeys() {
		o := objs.MapIndex(k).Elem()
		out = append(out, fmt.Sprintf("%s:%v", k.String(), o.FieldByName("Kind").Interface()))
	}
	sort.Strings(out)
	return strings.Join(out, ",")
}

func genGraph(sub string) func(t *rapid.T) (Case, bool) {
	return func(t *rapid.T) (Case, bool) {
		var src []byte
		from := "G-SYN"
		if rapid.IntRange(0, 3).Draw(t, "src") == 0 {
			from, src = gen.CorpusFile(t)
		} else {
			raw, kinds := gen.SynFile(t, rapid.IntRange(10, 250).Draw(t, "size"))
			for k := range kinds {
				h.Label("syn:" + k)
			}
			src = []byte(raw)
		}
		f, err := parser.ParseFile(token.NewFileSet(), "", src, parser.ParseComments)
		if err != nil {
			h.Exclude("base does not parse")
			return Case{}, false
		}
		cyc, synth := false, false
		ast.Inspect(f, func(n ast.Node) bool {
			switch n := n.(type) {
			case *ast.Ident:
				if n.Obj != nil {
					if _, ok := n.Obj.Decl.(*ast.AssignStmt); ok {
						synth = true
					}
					cyc = true
				}
			case *ast.RangeStmt, *ast.TypeSwitchStmt, *ast.LabeledStmt:
				synth = true
			}
			return true
		})
		c := Case{Srcs: map[string]string{"a.go": string(src)}, From: from, Resolved: rapid.IntRange(0, 2).Draw(t, "resolved") == 0}
		if c.Resolved {
			h.Label("graph:resolved-with-importer")
		} else if rapid.IntRange(0, 3).Draw(t, "localpaths") == 0 {
			c.LocalPaths = true
			h.Label("graph:local-paths")
		}
		if cyc && synth {
			h.NonTrivial(sub, c.Srcs["a.go"], fmt.Sprint(c.Resolved, c.LocalPaths))
		}
		h.Sample(sub, map[string]any{"from": from, "src": h.Trunc(string(src), 300)})
		return c, true
	}
}

func genPkg(t *rapid.T) (PkgCase, bool) {
	c := PkgCase{Srcs: map[string]string{}, NoImporter: rapid.IntRange(0, 3).Draw(t, "noimporter") == 0, NilUniverse: rapid.IntRange(0, 3).Draw(t, "niluniverse") == 0}
	n := rapid.IntRange(1, 3).Draw(t, "nfiles")
	for i := 0; i < n; i++ {
		raw, _ := gen.SynFile(t, rapid.IntRange(5, 80).Draw(t, "size"))
		// same package name so that duplicates / cross-file references occur
		raw = "package p" + raw[strings.Index(raw, "\n"):]
		if _, err := parser.ParseFile(token.NewFileSet(), "", raw, 0); err != nil {
			h.Exclude("base does not parse")
			return c, false
		}
		c.Srcs[fmt.Sprintf("f%d.go", i)] = raw
	}
	if n >= 2 {
		h.NonTrivial("NewPackage", fmt.Sprint(c.Srcs), fmt.Sprint(c.NoImporter, c.NilUniverse))
	}
	h.Label(fmt.Sprintf("files=%d importer=%v universe=%v", n, !c.NoImporter, !c.NilUniverse))
	h.Sample("NewPackage", map[string]any{"files": n, "no_importer": c.NoImporter, "nil_universe": c.NilUniverse})
	return c, true
}

var (
	propGraph = h.Prop("Graph", genGraph("Graph"), checkGraph("Graph"))
	propPkg   = h.Prop("NewPackage", genPkg, checkPkg)
)

func TestPropGraph(t *testing.T)      { rapid.Check(t, propGraph) }
func TestPropNewPackage(t *testing.T) { rapid.Check(t, propPkg) }

func TestReplay(t *testing.T) {
	known.RunRegressions(t, "C18")
	files := gen.CorpusAll()
	stride := 1
	if os.Getenv("VERIF_TIER") != "thorough" {
		stride = 12
	}
	off := 0
	fmt.Sscan(os.Getenv("VERIF_SEED"), &off)
	for i := off % stride; i < len(files); i += stride {
		src := gen.ReadCorpus(files[i])
		if _, err := parser.ParseFile(token.NewFileSet(), "", src, 0); err != nil {
			continue
		}
		h.Eval("CorpusSweep")
		checkGraph("CorpusSweep")(t, Case{Srcs: map[string]string{"a.go": string(src)}, From: files[i]})
		h.NonTrivial("CorpusSweep", files[i])
	}
}

func init() { h.RegisterReplay("CorpusSweep", checkGraph("CorpusSweep")) }

func TestReplayFile(t *testing.T) { h.TestReplayEnv(t) }
