// C04 — every decoration is rendered exactly once at its documented attachment point.
// Oracle: go/parser + go/scanner on the printed output, and the documented order of parts and
// points derived from gendst/data/positions.go (docorder.go) — nothing from dst's generated code.
package c04

import (
	"bytes"
	"fmt"
	"go/ast"
	"go/parser"
	"go/token"
	"os"
	"reflect"
	"strings"
	"testing"

	"github.com/dave/dst"
	"github.com/dave/dst/decorator"
	"github.com/dave/dst/decorator/resolver/goast"
	"github.com/dave/dst/decorator/resolver/guess"
	"github.com/dave/dst/dstutil"
	"pgregory.net/rapid"

	"verif/internal/dsth"
	"verif/internal/gen"
	"verif/internal/h"
	"verif/internal/known"
	"verif/internal/oracle"
)

func TestMain(m *testing.M) { h.Main(m, "C04") }

var doc *docOrder

func docs(t h.TB) *docOrder {
	if doc == nil {
		src, err := os.ReadFile(gen.RepoDir() + "/gendst/data/positions.go")
		if err != nil {
			t.Fatalf("harness: %v", err)
		}
		doc, err = buildDocOrder(src)
		if err != nil {
			t.Fatalf("harness: positions.go: %v", err)
		}
	}
	return doc
}

// Assign puts one decoration on one point.
type Assign struct {
	Node  int `json:"node"`  // index in dst.Inspect order (modulo the number of nodes)
	Point int `json:"point"` // index among the node's points as listed by dstutil.Decorations (modulo)
	Kind  int `json:"kind"`  // 0 block comment, 1 line comment (only where a line may end), 2 all points of the node get a block comment
}

type Case struct {
	Reuse   bool     `json:"reuse,omitempty"` // print through a FileRestorer that restores another file before the result is printed
	Imports bool     `json:"imports"`         // decorate with the goast resolver and restore with import management: qualified identifiers become path-carrying identifiers with the points Start, X, End
	Src     string   `json:"src"`
	From    string   `json:"from,omitempty"`
	Assigns []Assign `json:"assigns"`
}

func isComment(n ast.Node) bool {
	switch n.(type) {
	case *ast.Comment, *ast.CommentGroup:
		return true
	}
	return false
}

func decsField(n dst.Node, point string) *dst.Decorations {
	v := reflect.ValueOf(n).Elem().FieldByName("Decs")
	if !v.IsValid() {
		return nil
	}
	f := v.FieldByName(point)
	if !f.IsValid() {
		return nil
	}
	return f.Addr().Interface().(*dst.Decorations)
}

type placed struct {
	node  int
	point string
	text  string
	order int // listing index of the point on its node
}

func hasBuildHeader(src string) bool {
	return strings.Contains(src, "//go:build") || strings.Contains(src, "// +build") || strings.Contains(src, "//+build")
}

func check(sub string) func(t h.TB, c Case) {
	return func(t h.TB, c Case) {
		d := docs(t)
		var f *dst.File
		var err error
		var base []byte
		print := func(f *dst.File) ([]byte, error) {
			if !c.Imports {
				if c.Reuse {
					return dsth.PrintThenReuse(decorator.NewRestorer(), f)
				}
				return dsth.Print(f)
			}
			var buf bytes.Buffer
			err := decorator.NewRestorerWithImports("example.com/self", guess.New()).Fprint(&buf, f)
			return buf.Bytes(), err
		}
		if c.Imports && known.DuplicateImport([]byte(c.Src)) {
			// open finding KF-6 (judged by C08): an import-managed restore drops one of two specs with
			// the same path, so the printed tree has other nodes than the decorated one
			h.KnownHit("KF-6")
			return
		}
		if c.Imports {
			f, err = decorator.NewDecoratorWithImports(token.NewFileSet(), "example.com/self", goast.New()).Parse(c.Src)
			if err != nil {
				h.Exclude("the syntax-only resolver refuses this file (dot-import / ambiguous names)")
				return
			}
		} else {
			f, err = decorator.Parse(c.Src)
			if err != nil {
				t.Fatalf("harness: %v", err)
			}
		}
		// (with import management the first print also normalises the import declarations of f)
		base, err = print(f)
		if err != nil {
			t.Fatalf("harness: base does not print: %v", err)
		}
		if !c.Imports {
			f, _ = decorator.Parse(c.Src)
		}
		nodes := dsth.Nodes(f)
		parent := map[dst.Node]dst.Node{}
		{
			var stack []dst.Node
			dst.Inspect(f, func(n dst.Node) bool {
				if n == nil {
					stack = stack[:len(stack)-1]
					return true
				}
				if len(stack) > 0 {
					parent[n] = stack[len(stack)-1]
				}
				stack = append(stack, n)
				return true
			})
		}
		inImportBlock := func(n dst.Node) bool {
			for x := n; x != nil; x = parent[x] {
				if gd, ok := x.(*dst.GenDecl); ok && gd.Tok == token.IMPORT && gd.Lparen {
					return true
				}
			}
			return false
		}
		var ps []placed
		used := map[string]bool{}
		k := 0
		put := func(ni int, n dst.Node, point string, order int, line bool) {
			if used[fmt.Sprint(ni, point)] {
				return
			}
			fld := decsField(n, point)
			if fld == nil {
				h.Fail(t, sub, c, "%T: dstutil.Decorations lists point %q but the node's Decs has no such field", n, point)
			}
			used[fmt.Sprint(ni, point)] = true
			k++
			text := fmt.Sprintf("/*§%d§*/", k)
			if line {
				text = fmt.Sprintf("// §%d§", k) // (with the blank: go/printer inserts one into doc comments)
			}
			fld.Append(text)
			ps = append(ps, placed{ni, point, text, order})
			h.Label("point:" + dsth.TypeName(n) + "." + point)
		}
		for _, a := range c.Assigns {
			ni := a.Node % len(nodes)
			n := nodes[ni]
			_, _, pts := dstutil.Decorations(n)
			if len(pts) == 0 {
				continue // *dst.Package
			}
			if inImportBlock(n) {
				h.Label("skipped:inside-parenthesised-import (go/format re-sorts)")
				continue
			}
			if _, isFile := n.(*dst.File); isFile && hasBuildHeader(c.Src) {
				h.Label("skipped:file-points-with-build-header (go/printer moves build lines)")
				continue
			}
			if ts, ok := n.(*dst.TypeSpec); ok && ts.TypeParams != nil && ts.Assign {
				h.KnownHit("KF-3")
				continue
			}
			if ts, ok := parent[n].(*dst.TypeSpec); ok && ts.TypeParams != nil && ts.Assign {
				h.KnownHit("KF-3")
				continue
			}
			if a.Kind == 2 {
				for i, p := range pts {
					if id, ok := n.(*dst.Ident); ok && p.Name == "X" && id.Path == "" {
						continue
					}
					put(ni, n, p.Name, i, false)
				}
				h.Label("all-points-of-one-node")
				continue
			}
			pi := a.Point % len(pts)
			p := pts[pi]
			if id, ok := n.(*dst.Ident); ok && p.Name == "X" && id.Path == "" {
				continue // the X point only exists for qualified identifiers
			}
			line := false
			if a.Kind == 1 && (p.Name == "Start" || p.Name == "End") {
				// a line comment only where a line may end: before / after an element that
				// occupies its own line in a statement, declaration, spec or field list
				switch pp := parent[n].(type) {
				case *dst.BlockStmt, *dst.File, *dst.CaseClause, *dst.CommClause:
					_, isStmt := n.(dst.Stmt)
					_, isDecl := n.(dst.Decl)
					_, isLabeled := n.(*dst.LabeledStmt)
					line = (isStmt || isDecl) && !isLabeled
					if cc, ok := pp.(*dst.CommClause); ok && cc.Comm == n {
						line = false // "case <-x:" - the communication is followed by the colon, not by a line end
					}
				case *dst.GenDecl:
					line = pp.Lparen
				}
				if line && p.Name == "Start" && len(n.Decorations().Start) > 0 {
					// joining an existing comment group: go/printer re-flows doc comments as a whole
					line = false
				}
				if line {
					if p.Name == "Start" && n.Decorations().Before == dst.None {
						n.Decorations().Before = dst.NewLine
					}
					h.Label("line-comment")
				}
			}
			put(ni, n, p.Name, pi, line)
		}
		if len(ps) == 0 {
			h.Exclude("no decoration could be placed (all drawn points are excluded)")
			return
		}
		var out []byte
		h.Guard(t, sub, c, func() { out, err = print(f) })
		if err != nil {
			h.Fail(t, sub, c, "Fprint: %v", err)
		}
		// (a) every decoration exactly once
		for _, p := range ps {
			if n := bytes.Count(out, []byte(p.text)); n != 1 {
				h.Fail(t, sub, c, "decoration %s on %s.%s is rendered %d times\n%s", p.text, dsth.TypeName(nodes[p.node]), p.point, n, out)
			}
		}
		// (b) the token stream is otherwise unchanged
		tb, cb, _ := oracle.Scan(base)
		to, co, ok := oracle.Scan(out)
		if !ok {
			h.Fail(t, sub, c, "output does not scan\n%s", out)
		}
		if dd := oracle.DiffToks(tb, to); dd != "" {
			h.Fail(t, sub, c, "adding decorations changed the token stream: %s\n%s", dd, out)
		}
		if len(co) != len(cb)+len(ps) {
			h.Fail(t, sub, c, "%d comments before, %d decorations added, %d comments after", len(cb), len(ps), len(co))
		}
		fset := token.NewFileSet()
		pf, err := parser.ParseFile(fset, "", out, parser.ParseComments)
		if err != nil {
			h.Fail(t, sub, c, "output does not parse: %v\n%s", err, out)
		}
		if dd := oracle.SameShapeSrc(base, out); dd != "" {
			h.Fail(t, sub, c, "adding decorations changed the syntax tree: %s", dd)
		}
		// (d) placement: the comment lies where the documentation of the point says
		tf := fset.File(pf.Pos())
		var anodes []ast.Node
		ast.Inspect(pf, func(n ast.Node) bool {
			if n == nil || isComment(n) {
				return false
			}
			anodes = append(anodes, n)
			return true
		})
		if c.Imports {
			// a path-carrying identifier is printed as a selector expression: three ast nodes
			var mapped []ast.Node
			j := 0
			for _, n := range nodes {
				if j >= len(anodes) {
					t.Fatalf("harness: the output has fewer nodes than the tree")
				}
				mapped = append(mapped, anodes[j])
				if id, ok := n.(*dst.Ident); ok && id.Path != "" {
					if _, isSel := anodes[j].(*ast.SelectorExpr); isSel {
						j += 3
						continue
					}
				}
				j++
			}
			if j != len(anodes) {
				t.Fatalf("harness: node correspondence lost (%d of %d ast nodes consumed)", j, len(anodes))
			}
			anodes = mapped
		}
		if len(anodes) != len(nodes) {
			t.Fatalf("harness: %d dst nodes, %d ast nodes in the output", len(nodes), len(anodes))
		}
		where := map[string][2]int{}
		// go/printer holds back a comment group that contains a line break while the token printed
		// last implies a semicolon ("x /* a\n b */ y" would change meaning), and with it every
		// member of the group: a marker that follows a multi-line comment of the source in one
		// group moves with it
		heldBack := map[string]bool{}
		for _, g := range pf.Comments {
			multi := false
			for _, cm := range g.List {
				where[cm.Text] = [2]int{tf.Offset(cm.Pos()), tf.Offset(cm.End())}
				if multi {
					heldBack[cm.Text] = true
				}
				if strings.HasPrefix(cm.Text, "/*") && strings.Contains(cm.Text, "\n") {
					multi = true
				}
				if strings.HasPrefix(cm.Text, "//") && !strings.Contains(cm.Text, "§") {
					// a line comment of the source ends its line just as well (". // l⏎ \"fmt\"")
					multi = true
				}
			}
		}
		lastOff := map[int]int{}
		lastOrd := map[int]int{}
		for _, p := range ps {
			an := anodes[p.node]
			ty := typeOf(an)
			if ty != dsth.TypeName(nodes[p.node]) && !(c.Imports && ty == "SelectorExpr" && dsth.TypeName(nodes[p.node]) == "Ident") {
				t.Fatalf("harness: node %d is %s in dst and %s in the output", p.node, dsth.TypeName(nodes[p.node]), ty)
			}
			w, ok := where[p.text]
			if !ok {
				h.Fail(t, sub, c, "decoration %s not found as a comment in the output", p.text)
			}
			if heldBack[p.text] {
				h.Label("skipped-placement:marker-grouped-behind-a-line-breaking-comment-of-the-source")
				continue
			}
			desc := fmt.Sprintf("%s on %s.%s", p.text, ty, p.point)
			nStart, nEnd := tf.Offset(an.Pos()), tf.Offset(an.End())
			switch p.point {
			case "Start":
				if w[1] > nStart {
					h.Fail(t, sub, c, "%s is rendered after the node's first token (comment ends at %d, node starts at %d)\n%s", desc, w[1], nStart, out)
				}
			case "End":
				if implicitEnd(an) {
					// `L:` before a closing brace: go/parser gives the implicit empty statement the
					// position of the brace, which is not a token of the node
					break
				}
				if w[0] < nEnd {
					h.Fail(t, sub, c, "%s is rendered before the node's last token (comment at %d, node ends at %d)\n%s", desc, w[0], nEnd, out)
				}
			default:
				// interior points: only the documented order below applies (optional parts in front of
				// or behind the point may be absent, so the node's own extent gives no generic bound)
			}
			rel := d.rel[ty][p.point]
			for _, q := range partsOf(tf, an, "") {
				switch rel[q.name] {
				case +1:
					if w[1] > q.start {
						h.Fail(t, sub, c, "%s is documented before %s but rendered after its start (comment [%d,%d], %s at %d)\n%s", desc, q.name, w[0], w[1], q.name, q.start, out)
					}
				case -1:
					if w[0] < q.end {
						h.Fail(t, sub, c, "%s is documented after %s but rendered before its end (comment [%d,%d], %s ends at %d)\n%s", desc, q.name, w[0], w[1], q.name, q.end, out)
					}
				}
			}
			// (c) several points of one node render in listing order
			if lo, seen := lastOff[p.node]; seen && p.order > lastOrd[p.node] && w[0] < lo {
				h.Fail(t, sub, c, "%s is rendered before a decoration of an earlier point of the same node\n%s", desc, out)
			}
			if p.order >= lastOrd[p.node] {
				lastOff[p.node], lastOrd[p.node] = w[0], p.order
			}
		}
	}
}

func implicitEnd(n ast.Node) bool {
	switch n := n.(type) {
	case *ast.EmptyStmt:
		return n.Implicit
	case *ast.LabeledStmt:
		return implicitEnd(n.Stmt)
	case *ast.CaseClause:
		// a clause ends with its last statement
		return len(n.Body) > 0 && implicitEnd(n.Body[len(n.Body)-1])
	case *ast.CommClause:
		return len(n.Body) > 0 && implicitEnd(n.Body[len(n.Body)-1])
	}
	return false
}

func genCase(sub string) func(t *rapid.T) (Case, bool) {
	return func(t *rapid.T) (Case, bool) {
		var src []byte
		from := "G-SYN"
		switch rapid.IntRange(0, 5).Draw(t, "src") {
		case 0:
			from, src = gen.CorpusFile(t)
		case 1:
			from = gen.RepoDir() + "/gendst/data/positions.go"
			src = gen.ReadCorpus(from)
		default:
			raw, kinds := gen.SynFile(t, rapid.IntRange(10, 200).Draw(t, "size"))
			for k := range kinds {
				h.Label("syn:" + k)
			}
			src, _ = gen.Inject(t, []byte(raw), gen.LayoutOpts{Max: 3, AvoidImports: true, NoBuildTags: true})
		}
		cs, fix, err := oracle.Canon(src)
		if err != nil || !fix {
			h.Exclude("base does not parse / gofmt not idempotent")
			return Case{}, false
		}
		c := Case{Src: string(cs), From: from, Imports: rapid.IntRange(0, 3).Draw(t, "imports") == 0}
		c.Reuse = !c.Imports && rapid.IntRange(0, 3).Draw(t, "reuse") == 0
		if c.Imports {
			h.Label("with-import-management")
		}
		n := rapid.IntRange(1, 6).Draw(t, "nassign")
		for i := 0; i < n; i++ {
			a := Assign{Node: rapid.IntRange(0, 1<<20).Draw(t, "node"), Point: rapid.IntRange(0, 12).Draw(t, "point")}
			switch rapid.IntRange(0, 7).Draw(t, "kind") {
			case 0, 1:
				a.Kind = 1
			case 2:
				a.Kind = 2
			}
			c.Assigns = append(c.Assigns, a)
		}
		h.NonTrivial(sub, c.Src, fmt.Sprint(c.Assigns))
		h.Sample(sub, map[string]any{"from": from, "assigns": c.Assigns, "src": h.Trunc(c.Src, 200)})
		return c, true
	}
}

var prop = h.Prop("Placement", genCase("Placement"), check("Placement"))

func TestPropPlacement(t *testing.T) { rapid.Check(t, prop) }

// checkListing: the listing helper and the common-decorations accessor expose exactly the node's
// points, in documented order, backed by the node's own storage.
func checkListing(t h.TB, src string) {
	const sub = "Listing"
	d := docs(t)
	f, err := decorator.Parse(src)
	if err != nil {
		t.Fatalf("harness: %v", err)
	}
	for _, n := range dsth.Nodes(f) {
		ty := dsth.TypeName(n)
		before, after, pts := dstutil.Decorations(n)
		nd := n.Decorations()
		decs := reflect.ValueOf(n).Elem().FieldByName("Decs")
		if nd == nil || decs.FieldByName("NodeDecs").Addr().Interface().(*dst.NodeDecs) != nd {
			h.Fail(t, sub, src, "%s.Decorations() does not return &n.Decs.NodeDecs", ty)
		}
		if before != nd.Before || after != nd.After {
			h.Fail(t, sub, src, "%s: dstutil.Decorations returns other spacing than the node holds", ty)
		}
		// expected names: Start, the type's own Decorations fields in struct order, End
		want := []string{"Start"}
		for i := 0; i < decs.NumField(); i++ {
			if decs.Type().Field(i).Name != "NodeDecs" {
				want = append(want, decs.Type().Field(i).Name)
			}
		}
		want = append(want, "End")
		var got []string
		for _, p := range pts {
			got = append(got, p.Name)
		}
		if fmt.Sprint(got) != fmt.Sprint(want) {
			h.Fail(t, sub, src, "%s: dstutil.Decorations lists %v, the node's Decs struct has %v", ty, got, want)
		}
		// the documented points appear in the same relative order (per documented example)
		idx := map[string]int{}
		for i, g := range got {
			idx[g] = i
		}
		for _, seq := range d.pointSeqs[ty] {
			last := -1
			for _, p := range seq {
				i, ok := idx[p]
				if !ok {
					h.Fail(t, sub, src, "%s: documented point %s is not listed", ty, p)
				}
				if i < last {
					h.Fail(t, sub, src, "%s: listing order %v contradicts the documented order %v", ty, got, seq)
				}
				last = i
			}
		}
		// backed by the node's own storage: what the listing shows is what the node holds ...
		for _, p := range pts {
			fld := decsField(n, p.Name)
			if len(p.Decs) != len(*fld) || (len(p.Decs) > 0 && &p.Decs[0] != &(*fld)[0]) {
				h.Fail(t, sub, src, "%s.%s: the listed slice is not the node's own storage", ty, p.Name)
			}
		}
		// ... and a write through the node is visible through the helper
		fld := decsField(n, pts[len(pts)-1].Name)
		fld.Append("/*probe*/")
		_, _, again := dstutil.Decorations(n)
		if l := again[len(again)-1].Decs; len(l) == 0 || l[len(l)-1] != "/*probe*/" {
			h.Fail(t, sub, src, "%s: a decoration appended to the node is not visible through dstutil.Decorations", ty)
		}
		*fld = (*fld)[:len(*fld)-1]
		h.Label("listing:" + ty)
	}
	if pkg := (&dst.Package{}); pkg.Decorations() != nil {
		h.Fail(t, sub, src, "Package.Decorations() is not nil")
	}
}

func TestReplay(t *testing.T) {
	known.RunRegressions(t, "C04")
	d := docs(t)
	h.Note("DocOrder: %d node types with documented examples", len(d.seqs))
	pos := gen.RepoDir() + "/gendst/data/positions.go"
	src := string(gen.ReadCorpus(pos))
	h.Eval("Listing")
	checkListing(t, src)
	h.NonTrivial("Listing", "positions.go")
	files := gen.CorpusSmall()
	for i := 0; i < len(files); i += 97 {
		b := gen.ReadCorpus(files[i])
		if _, err := decorator.Parse(b); err == nil {
			h.Eval("Listing")
			checkListing(t, string(b))
			h.NonTrivial("Listing", files[i])
		}
	}
	// every point of every node of positions.go, one node at a time (all its points at once)
	cs, _, err := oracle.Canon([]byte(src))
	if err != nil {
		t.Fatalf("positions.go: %v", err)
	}
	f, _ := decorator.Parse(cs)
	n := len(dsth.Nodes(f))
	stride := 1
	if os.Getenv("VERIF_TIER") != "thorough" {
		stride = 3
	}
	off := 0
	fmt.Sscan(os.Getenv("VERIF_SEED"), &off)
	for i := off % stride; i < n; i += stride {
		h.Eval("PositionsAllPoints")
		check("PositionsAllPoints")(t, Case{Src: string(cs), From: pos, Assigns: []Assign{{Node: i, Kind: 2}}})
		h.NonTrivial("PositionsAllPoints", fmt.Sprint(i))
	}
}

func init() { h.RegisterReplay("PositionsAllPoints", check("PositionsAllPoints")) }

func TestReplayFile(t *testing.T) { h.TestReplayEnv(t) }
