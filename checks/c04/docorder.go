package c04

import (
	"fmt"
	"go/ast"
	"go/parser"
	"go/token"
	"reflect"
	"regexp"
	"sort"
	"strings"
)

// DocOrder is the documented order of a node type's parts (tokens with a position, child nodes,
// child lists) and decoration points, derived with go/parser alone from
// gendst/data/positions.go, the file from which the doc comments of the XxxDecorations types are
// generated: every example there carries a /*PointName*/ comment at each point.

type item struct {
	name       string
	point      bool
	start, end int
}

var (
	posType  = reflect.TypeOf(token.NoPos)
	nodeType = reflect.TypeOf((*ast.Node)(nil)).Elem()
)

// partsOf lists the parts of an ast node that go/printer emits with their own position:
// token positions, child nodes, child lists. A FuncDecl's FuncType is flattened ("Type.Params").
func partsOf(tf *token.File, n ast.Node, prefix string) []item {
	var out []item
	v := reflect.ValueOf(n).Elem()
	t := v.Type()
	off := func(p token.Pos) int { return tf.Offset(p) }
	for i := 0; i < t.NumField(); i++ {
		f := t.Field(i)
		fv := v.Field(i)
		switch {
		case f.Name == "Doc" || f.Name == "Comment" || f.Name == "Comments" || f.Name == "Imports" || f.Name == "Unresolved" || f.Name == "FileStart" || f.Name == "FileEnd" || f.Name == "Obj" || f.Name == "Scope":
		case f.Type == posType:
			p := token.Pos(fv.Int())
			if t.Name() == "RangeStmt" && f.Name == "Range" {
				// ast.RangeStmt.Range exists since go1.20; dave/dst (go 1.18) never sets it, so for
				// go/printer the keyword has no position of its own: a soft token
				continue
			}
			if p.IsValid() {
				out = append(out, item{prefix + f.Name, false, off(p), off(p) + 1})
			}
		case f.Type.Implements(nodeType):
			if fv.IsNil() {
				continue
			}
			c := fv.Interface().(ast.Node)
			if fd, ok := n.(*ast.FuncDecl); ok && f.Name == "Type" {
				out = append(out, partsOf(tf, fd.Type, "Type.")...)
				continue
			}
			if es, ok := c.(*ast.EmptyStmt); ok && es.Implicit {
				continue // positioned at the following closing brace, which is not part of the node
			}
			if c.Pos().IsValid() && c.End().IsValid() {
				out = append(out, item{prefix + f.Name, false, off(c.Pos()), off(realEnd(c))})
			}
		case f.Type.Kind() == reflect.Slice && f.Type.Elem().Implements(nodeType):
			if fv.Len() == 0 {
				continue
			}
			a := fv.Index(0).Interface().(ast.Node)
			b := fv.Index(fv.Len() - 1).Interface().(ast.Node)
			out = append(out, item{prefix + f.Name, false, off(a.Pos()), off(realEnd(b))})
		}
	}
	return out
}

// realEnd is n.End(), except for a label in front of a closing brace: go/parser positions the
// implicit empty statement at the brace, which is not a token of the labeled statement.
func realEnd(n ast.Node) token.Pos {
	if ls, ok := n.(*ast.LabeledStmt); ok {
		if es, ok := ls.Stmt.(*ast.EmptyStmt); ok && es.Implicit {
			return ls.Colon + 1
		}
		return realEnd(ls.Stmt)
	}
	return n.End()
}

// relation of a point to a part: +1 the point is documented before the part, -1 after it,
// 0 unknown / documented both ways.
type docOrder struct {
	rel       map[string]map[string]map[string]int // type -> point -> part -> relation
	points    map[string][]string                  // type -> documented point names in order of first appearance
	seqs      map[string][]string                  // type -> documented sequences (for the evidence)
	pointSeqs map[string][][]string                // type -> per example: the point names in documented order
}

func typeOf(n ast.Node) string { return strings.TrimPrefix(fmt.Sprintf("%T", n), "*ast.") }

func buildDocOrder(src []byte) (*docOrder, error) {
	fset := token.NewFileSet()
	f, err := parser.ParseFile(fset, "positions.go", src, parser.ParseComments)
	if err != nil {
		return nil, err
	}
	tf := fset.File(f.Pos())
	marker := regexp.MustCompile(`^// ([A-Z][A-Za-z]+)(\((\d+)\))?$`)
	point := regexp.MustCompile(`^/\*([A-Z][A-Za-z]*)\*/$`)
	type ex struct {
		typ    string
		points []item
	}
	var exs []*ex
	var cur *ex
	for _, cg := range f.Comments {
		for _, c := range cg.List {
			if m := marker.FindStringSubmatch(c.Text); m != nil {
				cur = &ex{typ: m[1]}
				exs = append(exs, cur)
				continue
			}
			if c.Text == "// --" {
				cur = nil
				continue
			}
			if m := point.FindStringSubmatch(c.Text); m != nil && cur != nil {
				cur.points = append(cur.points, item{m[1], true, tf.Offset(c.Pos()), tf.Offset(c.End())})
			}
		}
	}
	d := &docOrder{rel: map[string]map[string]map[string]int{}, points: map[string][]string{}, seqs: map[string][]string{}, pointSeqs: map[string][][]string{}}
	conflict := map[string]bool{}
	for _, e := range exs {
		if len(e.points) == 0 {
			continue
		}
		lo, hi := e.points[0].end, e.points[len(e.points)-1].start
		var best ast.Node
		if e.typ == "File" {
			best = f
		} else {
			ast.Inspect(f, func(n ast.Node) bool {
				if n == nil || best != nil {
					return false
				}
				if typeOf(n) == e.typ && tf.Offset(n.Pos()) >= lo && tf.Offset(n.End()) <= hi+1 {
					best = n
					return false
				}
				return true
			})
		}
		if e.typ == "Ident" && len(e.points) == 3 {
			best = nil // "Ident(1)": a qualified identifier is a SelectorExpr for go/parser
		}
		if best == nil {
			continue
		}
		var pseq []string
		for _, pt := range e.points {
			pseq = append(pseq, pt.name)
		}
		d.pointSeqs[e.typ] = append(d.pointSeqs[e.typ], pseq)
		items := append([]item{}, e.points...)
		items = append(items, partsOf(tf, best, "")...)
		sort.SliceStable(items, func(i, j int) bool { return items[i].start < items[j].start })
		var seq []string
		for _, it := range items {
			if it.point {
				seq = append(seq, "<"+it.name+">")
				found := false
				for _, p := range d.points[e.typ] {
					found = found || p == it.name
				}
				if !found {
					d.points[e.typ] = append(d.points[e.typ], it.name)
				}
			} else {
				seq = append(seq, it.name)
			}
		}
		d.seqs[e.typ] = append(d.seqs[e.typ], strings.Join(seq, " "))
		if d.rel[e.typ] == nil {
			d.rel[e.typ] = map[string]map[string]int{}
		}
		for _, p := range items {
			if !p.point {
				continue
			}
			if d.rel[e.typ][p.name] == nil {
				d.rel[e.typ][p.name] = map[string]int{}
			}
			for _, q := range items {
				if q.point {
					continue
				}
				r := 0
				switch {
				case p.end <= q.start:
					r = +1
				case p.start >= q.end:
					r = -1
				default:
					continue // the part spans the point: no constraint
				}
				key := e.typ + "." + p.name + "/" + q.name
				if old, ok := d.rel[e.typ][p.name][q.name]; ok && old != r {
					conflict[key] = true
				}
				d.rel[e.typ][p.name][q.name] = r
			}
		}
	}
	for key := range conflict {
		tp := strings.SplitN(key, "/", 2)
		tn := strings.SplitN(tp[0], ".", 2)
		d.rel[tn[0]][tn[1]][tp[1]] = 0
	}
	return d, nil
}
