// C20 — saving a package writes exactly its files, unchanged unless edited.
// Oracle: directory snapshots before / after, and an independent import-managed print of an
// identically built tree. Resolver failures are enumerated over every call position.
package c20

import (
	"bytes"
	"errors"
	"fmt"
	"go/ast"
	"go/parser"
	"go/token"
	"go/types"
	"os"
	"path/filepath"
	"sort"
	"testing"

	"github.com/dave/dst"
	"github.com/dave/dst/decorator"
	"github.com/dave/dst/decorator/resolver"
	"github.com/dave/dst/decorator/resolver/gotypes"
	"github.com/dave/dst/decorator/resolver/simple"
	"golang.org/x/tools/go/packages"
	"pgregory.net/rapid"

	"verif/internal/gen"
	"verif/internal/h"
	"verif/internal/known"
	"verif/internal/oracle"
)

func TestMain(m *testing.M) { h.Main(m, "C20") }

const rootPath = "example.com/root"

var errInjected = errors.New("injected resolver failure")

type Case struct {
	Libs    []gen.Lib         `json:"libs"`
	Root    map[string]string `json:"root"`     // file name -> canonical source
	SubDir  map[string]bool   `json:"sub_dir"`  // files that live in a sub-directory of the package dir
	Edit    string            `json:"edit"`     // file that is edited before saving ("" = none)
	Donor   string            `json:"donor"`    // declarations of this file are cloned into Edit
	FailAll bool              `json:"fail_all"` // additionally enumerate a resolver failure at every call
}

type failPkg struct {
	inner resolver.RestorerResolver
	k, n  int
}

func (f *failPkg) ResolvePackage(path string) (string, error) {
	f.n++
	if f.n == f.k {
		return "", errInjected
	}
	return f.inner.ResolvePackage(path)
}

func names(libs []gen.Lib) map[string]string {
	m := map[string]string{rootPath: "root"}
	for _, l := range libs {
		m[l.ImportPath] = l.Name
		m[l.FullPath] = l.Name
	}
	return m
}

func snapshot(dir string) map[string]string {
	out := map[string]string{}
	filepath.Walk(dir, func(p string, info os.FileInfo, err error) error {
		if err == nil && !info.IsDir() {
			b, _ := os.ReadFile(p)
			out[p] = string(b)
		}
		return nil
	})
	return out
}

// load parses the files from disk, type-checks and decorates them: a decorator.Package by hand.
func load(t h.TB, c Case, dir string, order []string) (*decorator.Package, map[string]*dst.File) {
	p := &gen.Prog{Libs: c.Libs, Names: names(c.Libs)}
	imp, err := p.Importer()
	if err != nil {
		t.Fatalf("harness: %v", err)
	}
	fset := token.NewFileSet()
	var files []*ast.File
	for _, n := range order {
		af, err := parser.ParseFile(fset, pathOf(c, dir, n), nil, parser.ParseComments)
		if err != nil {
			t.Fatalf("harness: %v", err)
		}
		files = append(files, af)
	}
	info := &types.Info{Uses: map[*ast.Ident]types.Object{}, Defs: map[*ast.Ident]types.Object{}}
	if _, err := (&types.Config{Importer: imp}).Check(rootPath, fset, files, info); err != nil {
		t.Fatalf("harness: root does not type-check: %v", err)
	}
	dec := decorator.NewDecoratorWithImports(fset, rootPath, gotypes.New(info.Uses))
	pkg := &decorator.Package{Package: &packages.Package{PkgPath: rootPath, Name: "root"}, Dir: dir, Decorator: dec, Imports: map[string]*decorator.Package{}}
	byName := map[string]*dst.File{}
	for i, af := range files {
		df, err := dec.DecorateFile(af)
		if err != nil {
			t.Fatalf("harness: DecorateFile: %v", err)
		}
		pkg.Syntax = append(pkg.Syntax, df)
		byName[order[i]] = df
	}
	if c.Edit != "" && c.Donor != "" {
		for _, d := range byName[c.Donor].Decls {
			if gd, ok := d.(*dst.GenDecl); ok && gd.Tok == token.IMPORT {
				continue
			}
			cl := dst.Clone(d)
			// rename the declared top-level names so that the package still compiles
			switch n := cl.(type) {
			case *dst.FuncDecl:
				n.Name.Name += "x"
			case *dst.GenDecl:
				for _, sp := range n.Specs {
					switch sp := sp.(type) {
					case *dst.TypeSpec:
						sp.Name.Name += "x"
					case *dst.ValueSpec:
						for _, id := range sp.Names {
							id.Name += "x"
						}
					}
				}
			}
			byName[c.Edit].Decls = append(byName[c.Edit].Decls, cl.(dst.Decl))
		}
	}
	return pkg, byName
}

func pathOf(c Case, dir, name string) string {
	if c.SubDir[name] {
		return filepath.Join(dir, "sub", name)
	}
	return filepath.Join(dir, name)
}

func setup(t h.TB, c Case) (dir string, order []string) {
	dir, err := os.MkdirTemp("", "verif-c20-")
	if err != nil {
		t.Fatalf("infrastructure: %v", err)
	}
	os.MkdirAll(filepath.Join(dir, "sub"), 0o755)
	for n := range c.Root {
		order = append(order, n)
	}
	sort.Strings(order)
	for _, n := range order {
		os.WriteFile(pathOf(c, dir, n), []byte(c.Root[n]), 0o644)
	}
	// bystanders
	os.WriteFile(filepath.Join(dir, "README.md"), []byte("not go\n"), 0o644)
	os.WriteFile(filepath.Join(dir, "zz_other.go"), []byte("package   root // not part of the loaded package, not canonical\n"), 0o644)
	os.WriteFile(filepath.Join(dir, "sub", "data.txt"), []byte("data\n"), 0o644)
	os.WriteFile(filepath.Join(dir, "grammar.y"), []byte("%% yacc source that //line directives point to\n"), 0o644)
	return dir, order
}

func check(t h.TB, c Case) {
	const sub = "Save"
	dir, order := setup(t, c)
	defer os.RemoveAll(dir)
	acc := simple.New(names(c.Libs))
	before := snapshot(dir)

	// expected contents: an identically built tree, printed file by file with fresh restorers
	_, expTrees := load(t, c, dir, order)
	expected := map[string]string{}
	for _, n := range order {
		var buf bytes.Buffer
		if err := decorator.NewRestorerWithImports(rootPath, acc).Fprint(&buf, expTrees[n]); err != nil {
			h.Fail(t, sub, c, "independent print of %s failed: %v", n, err)
		}
		expected[pathOf(c, dir, n)] = buf.String()
	}

	pkg, _ := load(t, c, dir, order)
	dry := &failPkg{inner: acc}
	var err error
	h.Guard(t, sub, c, func() { err = pkg.SaveWithResolver(dry) })
	if err != nil {
		h.Fail(t, sub, c, "SaveWithResolver: %v", err)
	}
	after := snapshot(dir)
	for p := range after {
		if _, ok := before[p]; !ok {
			h.Fail(t, sub, c, "Save created a new file %s", rel(dir, p))
		}
	}
	for p, b := range before {
		a, ok := after[p]
		if !ok {
			h.Fail(t, sub, c, "Save removed %s", rel(dir, p))
		}
		exp, decorated := expected[p]
		if !decorated {
			if a != b {
				h.Fail(t, sub, c, "Save changed %s, which is not a file of the package", rel(dir, p))
			}
			continue
		}
		if a != exp {
			h.Fail(t, sub, c, "%s on disk differs from the import-managed print of that file: %s", rel(dir, p), oracle.FirstDiffLine([]byte(exp), []byte(a)))
		}
		edited := c.Edit != "" && c.Donor != "" && p == pathOf(c, dir, c.Edit)
		if !edited && a != b {
			cls := known.LayoutClass([]byte(b))
			if cls == "" {
				h.Fail(t, sub, c, "unedited canonical file %s changed on disk: %s", rel(dir, p), oracle.FirstDiffLine([]byte(b), []byte(a)))
			}
			h.KnownHit(cls)
		}
	}

	// failure of the resolver at every call position: error returned, no later file written
	if !c.FailAll {
		return
	}
	// calls per file, from failure-free single-file dry runs on a fresh tree
	for p, b := range before {
		os.WriteFile(p, []byte(b), 0o644)
	}
	_, cntTrees := load(t, c, dir, order)
	var cum []int
	total := 0
	for _, n := range order {
		d := &failPkg{inner: acc}
		var sink bytes.Buffer
		decorator.NewRestorerWithImports(rootPath, d).Fprint(&sink, cntTrees[n])
		total += d.n
		cum = append(cum, total)
	}
	if total != dry.n {
		h.Note("per-file call counts (%d) differ from the package run (%d); failure positions are located by the package run", total, dry.n)
		return
	}
	for k := 1; k <= total; k++ {
		h.Eval("inject:save")
		if k > 1 {
			h.NonTrivial(sub, "fail", fmt.Sprint(k), fmt.Sprint(c.Root))
		}
		// restore the directory
		for p, b := range before {
			os.WriteFile(p, []byte(b), 0o644)
		}
		j := 0
		for j < len(cum) && k > cum[j] {
			j++
		}
		pkg, _ := load(t, c, dir, order)
		var serr error
		h.Guard(t, sub, c, func() { serr = pkg.SaveWithResolver(&failPkg{inner: acc, k: k}) })
		if serr == nil || !errors.Is(serr, errInjected) {
			h.Fail(t, sub, c, "resolver call %d of %d failed, Save returned %v", k, total, serr)
		}
		now := snapshot(dir)
		for p := range now {
			if _, ok := before[p]; !ok {
				h.Fail(t, sub, c, "failed Save created %s", rel(dir, p))
			}
		}
		for i := j; i < len(order); i++ {
			p := pathOf(c, dir, order[i])
			if now[p] != before[p] {
				h.Fail(t, sub, c, "resolver failed while file %d (%s) was restored, but file %d (%s) was written", j, order[j], i, order[i])
			}
		}
		for i := 0; i < j; i++ {
			p := pathOf(c, dir, order[i])
			if now[p] != expected[p] && now[p] != before[p] {
				h.Fail(t, sub, c, "file %s written before the failure has unexpected content", order[i])
			}
		}
	}
}

func rel(dir, p string) string {
	r, err := filepath.Rel(dir, p)
	if err != nil {
		return p
	}
	return r
}

func genCase(t *rapid.T) (Case, bool) {
	const sub = "Save"
	p := gen.GenProg(t, 1, 3)
	c := Case{Libs: p.Libs, Root: map[string]string{}, SubDir: map[string]bool{}, FailAll: rapid.IntRange(0, 2).Draw(t, "failall") == 0}
	imp, err := p.Importer()
	if err != nil {
		h.Exclude("libraries do not type-check")
		return c, false
	}
	var fn []string
	rs := p.RootSources(rootPath)
	var rnames []string
	for name := range rs {
		rnames = append(rnames, name)
	}
	sort.Strings(rnames) // (draws inside a map iteration would make a run depend on map order)
	for _, name := range rnames {
		src := rs[name]
		if rapid.IntRange(0, 5).Draw(t, "linedir") == 0 {
			src = "//line grammar.y:1\n" + src
			h.Label("line-directive-before-package")
		}
		inj, _ := gen.Inject(t, []byte(src), gen.LayoutOpts{Max: 4, NoBuildTags: true})
		cs, fix, err := oracle.Canon(inj)
		if err != nil || !fix {
			h.Exclude("gofmt not idempotent / unparseable")
			return c, false
		}
		c.Root[name] = string(cs)
		if rapid.IntRange(0, 3).Draw(t, "subdir") == 0 {
			c.SubDir[name] = true
		}
		fn = append(fn, name)
	}
	sort.Strings(fn)
	if _, err := p.CheckSources(imp, rootPath, c.Root); err != nil {
		h.Exclude("injected line break changed the program (no longer type-checks)")
		return c, false
	}
	if len(fn) > 1 && rapid.Bool().Draw(t, "edit") {
		c.Edit = fn[rapid.IntRange(0, len(fn)-1).Draw(t, "editfile")]
		for _, n := range fn {
			if n != c.Edit {
				c.Donor = n
			}
		}
		h.Label("edited")
	}
	h.Label(fmt.Sprintf("files=%d", len(fn)))
	if len(fn) >= 2 {
		h.NonTrivial(sub, fmt.Sprint(c.Root), c.Edit, c.Donor, fmt.Sprint(c.SubDir))
	}
	h.Sample(sub, map[string]any{"files": fn, "sub_dir": c.SubDir, "edit": c.Edit, "donor": c.Donor, "fail_all": c.FailAll})
	return c, true
}

var prop = h.Prop("Save", genCase, check)

func TestPropSave(t *testing.T) { rapid.Check(t, prop) }

func TestReplay(t *testing.T) { known.RunRegressions(t, "C20") }

func TestReplayFile(t *testing.T) { h.TestReplayEnv(t) }
