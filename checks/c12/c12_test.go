// C12 — restored ASTs carry a coherent position space.
// Oracle: token.FileSet invariants + rank order of all positions vs a fresh parse of the printed text.
package c12

import (
	"bytes"
	"fmt"
	"go/ast"
	"go/format"
	"go/parser"
	"go/token"
	"os"
	"reflect"
	"regexp"
	"sort"
	"strings"
	"testing"

	"github.com/dave/dst"
	"github.com/dave/dst/decorator"
	"github.com/dave/dst/decorator/resolver/gotypes"
	"github.com/dave/dst/decorator/resolver/simple"
	"pgregory.net/rapid"

	"verif/internal/gen"
	"verif/internal/h"
	"verif/internal/known"
	"verif/internal/oracle"
)

func TestMain(m *testing.M) { h.Main(m, "C12") }

type Case struct {
	Srcs   []string `json:"srcs"`   // 1-4 files restored into one Restorer / FileSet
	Pre    int      `json:"pre"`    // files already in the FileSet
	OneFR  bool     `json:"one_fr"` // all files restored through one FileRestorer value
	Extras bool     `json:"extras"`
	Hand   bool     `json:"hand"` // optional flags a hand-built tree leaves at their zero value are cleared (FuncDecl.Type.Func)
	From   string   `json:"from,omitempty"`
}

type posItem struct {
	path string
	pos  token.Pos
}

var (
	posT = reflect.TypeOf(token.NoPos)
	cgT  = reflect.TypeOf((*ast.CommentGroup)(nil))
	cgsT = reflect.TypeOf([]*ast.CommentGroup(nil))
	objT = reflect.TypeOf((*ast.Object)(nil))
	scT  = reflect.TypeOf((*ast.Scope)(nil))
)

// positions lists every token.Pos field of the tree in a canonical (struct field) order.
func positions(n ast.Node) []posItem {
	var out []posItem
	var walk func(v reflect.Value, path string)
	walk = func(v reflect.Value, path string) {
		switch v.Type() {
		case posT:
			out = append(out, posItem{path, token.Pos(v.Int())})
			return
		case cgT, cgsT, objT, scT:
			return
		}
		switch v.Kind() {
		case reflect.Interface, reflect.Ptr:
			if !v.IsNil() {
				walk(v.Elem(), path)
			}
		case reflect.Struct:
			for i := 0; i < v.NumField(); i++ {
				f := v.Type().Field(i)
				if f.Name == "Unresolved" || f.Name == "Imports" || f.Name == "FileStart" || f.Name == "FileEnd" {
					continue
				}
				walk(v.Field(i), path+"."+v.Type().Name()+"."+f.Name)
			}
		case reflect.Slice:
			for i := 0; i < v.Len(); i++ {
				walk(v.Index(i), fmt.Sprintf("%s[%d]", path, i))
			}
		}
	}
	walk(reflect.ValueOf(n), "")
	return out
}

func comments(f *ast.File) []*ast.Comment {
	var out []*ast.Comment
	for _, g := range f.Comments {
		out = append(out, g.List...)
	}
	return out
}

func ranks(ps []token.Pos) []int {
	idx := make([]int, len(ps))
	for i := range idx {
		idx[i] = i
	}
	sort.SliceStable(idx, func(a, b int) bool { return ps[idx[a]] < ps[idx[b]] })
	r := make([]int, len(ps))
	rank := 0
	for k, i := range idx {
		if k > 0 && ps[i] != ps[idx[k-1]] {
			rank++
		}
		r[i] = rank
	}
	return r
}

func check(sub string) func(t h.TB, c Case) {
	return func(t h.TB, c Case) {
		fset := token.NewFileSet()
		for i := 0; i < c.Pre; i++ {
			parser.ParseFile(fset, fmt.Sprintf("pre%d.go", i), "package pre\n\n// x\nvar X = `a\nb`\n", parser.ParseComments)
		}
		res := decorator.NewRestorer()
		res.Fset = fset
		res.Extras = c.Extras
		fr := res.FileRestorer()
		type restored struct {
			f    *ast.File
			name string
			src  string
		}
		var all []restored
		for i, src := range c.Srcs {
			df, err := decorator.Parse(src)
			if err != nil {
				t.Fatalf("harness: %v", err)
			}
			if c.Hand {
				dst.Inspect(df, func(n dst.Node) bool {
					if fd, ok := n.(*dst.FuncDecl); ok {
						fd.Type.Func = false // FuncDecl always prints "func"; hand-built trees rarely set this
					}
					return true
				})
			}
			var af *ast.File
			name := fmt.Sprintf("r%d.go", i)
			h.Guard(t, sub, c, func() {
				if c.OneFR {
					fr.Name = name
					af, err = fr.RestoreFile(df)
				} else {
					f2 := res.FileRestorer()
					f2.Name = name
					af, err = f2.RestoreFile(df)
				}
			})
			if err != nil {
				h.Fail(t, sub, c, "RestoreFile: %v", err)
			}
			all = append(all, restored{af, name, src})
		}
		// files of the set never overlap
		prevEnd := 0
		fset.Iterate(func(tf *token.File) bool {
			if tf.Base() <= prevEnd && prevEnd != 0 {
				h.Fail(t, sub, c, "file %s (base %d) overlaps the previous file (end %d)", tf.Name(), tf.Base(), prevEnd)
			}
			prevEnd = tf.Base() + tf.Size()
			lines := tf.Lines()
			for i := 1; i < len(lines); i++ {
				if lines[i] <= lines[i-1] {
					h.Fail(t, sub, c, "line table of %s not strictly increasing at %d: %d, %d", tf.Name(), i, lines[i-1], lines[i])
				}
			}
			if len(lines) > 0 && (lines[0] != 0 || lines[len(lines)-1] > tf.Size()) {
				h.Fail(t, sub, c, "line table of %s out of range (first %d, last %d, size %d)", tf.Name(), lines[0], lines[len(lines)-1], tf.Size())
			}
			return true
		})
		// judge every file after ALL have been restored (earlier files must stay intact)
		for _, r := range all {
			judgeFile(t, sub, c, fset, r.f, r.name, r.src)
		}
	}
}

// judgeFile checks one restored file against the FileSet and against a fresh parse of its print.
func judgeFile(t h.TB, sub string, c interface{}, fset *token.FileSet, af *ast.File, name, src string) {
	tf := fset.File(af.Package)
	if tf == nil || tf.Name() != name {
		h.Fail(t, sub, c, "%s: package position %d is not inside the file registered for it", name, af.Package)
	}
	inFile := func(what string, p token.Pos) {
		if !p.IsValid() {
			return
		}
		if int(p) < tf.Base() || int(p) > tf.Base()+tf.Size() {
			other := fset.File(p)
			on := "no file"
			if other != nil {
				on = other.Name()
			}
			h.Fail(t, sub, c, "%s: position %d of %s lies outside its file [%d,%d] (in %s)", name, p, what, tf.Base(), tf.Base()+tf.Size(), on)
		}
	}
	ps := positions(af)
	for _, p := range ps {
		inFile(p.path, p.pos)
	}
	cs := comments(af)
	for i, cm := range cs {
		inFile("comment "+cm.Text, cm.Slash)
		inFile("end of comment "+cm.Text, cm.End())
		if i > 0 && cs[i-1].Slash >= cm.Slash {
			h.Fail(t, sub, c, "%s: comments not in source order: %q at %d before %q at %d", name, cs[i-1].Text, cs[i-1].Slash, cm.Text, cm.Slash)
		}
	}
	// single-line tokens end on their own line
	ast.Inspect(af, func(n ast.Node) bool {
		switch n := n.(type) {
		case *ast.Ident:
			if n.Pos().IsValid() && n.Name != "" && tf.Line(n.Pos()) != tf.Line(n.End()-1) {
				h.Fail(t, sub, c, "%s: identifier %s starts on line %d and ends on line %d", name, n.Name, tf.Line(n.Pos()), tf.Line(n.End()-1))
			}
		case *ast.BasicLit:
			if n.Pos().IsValid() && !strings.Contains(n.Value, "\n") && len(n.Value) > 0 && tf.Line(n.Pos()) != tf.Line(n.End()-1) {
				h.Fail(t, sub, c, "%s: literal %s starts on line %d and ends on line %d", name, n.Value, tf.Line(n.Pos()), tf.Line(n.End()-1))
			}
		}
		return true
	})
	// printable, repeatedly, with identical bytes
	var b1, b2 bytes.Buffer
	var e1, e2 error
	h.Guard(t, sub, c, func() {
		e1 = format.Node(&b1, fset, af)
		e2 = format.Node(&b2, fset, af)
	})
	if e1 != nil || e2 != nil {
		h.Fail(t, sub, c, "%s: restored ast does not print: %v %v", name, e1, e2)
	}
	if !bytes.Equal(b1.Bytes(), b2.Bytes()) {
		h.Fail(t, sub, c, "%s: printing the restored ast twice gives different bytes", name)
	}
	// rank order vs a fresh parse of the printed text
	pf, err := parser.ParseFile(token.NewFileSet(), "", b1.Bytes(), parser.ParseComments)
	if err != nil {
		h.Fail(t, sub, c, "%s: printed text does not parse: %v", name, err)
	}
	qs := positions(pf)
	if len(qs) != len(ps) {
		// format.Node sorted / merged import specs, or the shape changed: C03's business
		h.Exclude("printed text has another shape (import sorting)")
		return
	}
	var P, Q []token.Pos
	var names []string
	for i := range ps {
		if ps[i].path != qs[i].path {
			h.Exclude("printed text has another shape (import sorting)")
			P = nil
			break
		}
		if ps[i].pos.IsValid() && qs[i].pos.IsValid() {
			P, Q, names = append(P, ps[i].pos), append(Q, qs[i].pos), append(names, ps[i].path)
		}
		if !ps[i].pos.IsValid() && qs[i].pos.IsValid() && !neverSet(ps[i].path) {
			h.Fail(t, sub, c, "%s: %s has no position in the restored ast, but the printed text has that token (at %d)", name, ps[i].path, qs[i].pos)
		}
		if ps[i].pos.IsValid() && !qs[i].pos.IsValid() {
			h.Fail(t, sub, c, "%s: %s has a position (%d) in the restored ast, but the printed text has no such token", name, ps[i].path, ps[i].pos)
		}
	}
	if P == nil {
		return
	}
	// comments, paired by text when texts are unique
	pc := comments(pf)
	uniq := map[string]int{}
	for _, cm := range cs {
		uniq[cm.Text]++
	}
	byText := map[string]token.Pos{}
	for _, cm := range pc {
		byText[cm.Text] = cm.Slash
	}
	for _, cm := range cs {
		if directiveRE.MatchString(cm.Text) {
			// go/printer's doc-comment formatter moves directive lines (//line, //go:..., //export ...)
			// to the end of a group it takes for a doc comment: their rank among the comments is the
			// printer's choice
			h.Label("directive-comment-not-ranked")
			continue
		}
		if q, ok := byText[cm.Text]; ok && uniq[cm.Text] == 1 {
			P, Q, names = append(P, cm.Slash), append(Q, q), append(names, "comment "+cm.Text)
		}
	}
	if known.GenericAlias([]byte(src)) {
		// open finding KF-3: dst orders '=' before the type parameter list of a TypeSpec
		h.KnownHit("KF-3")
		return
	}
	rp, rq := ranks(P), ranks(Q)
	for i := range rp {
		if rp[i] != rq[i] {
			// find a concrete inverted pair for the message
			for j := range rp {
				if (P[i] < P[j]) != (Q[i] < Q[j]) || (P[i] == P[j]) != (Q[i] == Q[j]) {
					h.Fail(t, sub, c, "%s: relative order differs from a fresh parse: %s (restored %d, parsed %d) vs %s (restored %d, parsed %d)", name, names[i], P[i], Q[i], names[j], P[j], Q[j])
				}
			}
		}
	}
}

// neverSet: the three token positions the restorer of the pinned tree leaves unset (measured over
// the whole corpus); every other token of the printed text must have a position in the restored ast.
func neverSet(path string) bool {
	return strings.HasSuffix(path, ".RangeStmt.Range") || strings.HasSuffix(path, ".ChanType.Arrow") || strings.HasSuffix(path, ".EmptyStmt.Semicolon")
}

var directiveRE = regexp.MustCompile(`^//(line |extern |export |[a-z0-9]+:[a-z0-9])`)

func genCase(sub string) func(t *rapid.T) (Case, bool) {
	return func(t *rapid.T) (Case, bool) {
		c := Case{Pre: rapid.IntRange(0, 2).Draw(t, "pre"), OneFR: rapid.Bool().Draw(t, "onefr"), Extras: rapid.IntRange(0, 3).Draw(t, "extras") == 0, Hand: rapid.IntRange(0, 3).Draw(t, "hand") == 0}
		n := rapid.IntRange(1, 3).Draw(t, "nfiles")
		ncomments, multiline := 0, false
		for i := 0; i < n; i++ {
			var src []byte
			if rapid.IntRange(0, 3).Draw(t, "src") == 0 {
				c.From, src = gen.CorpusFile(t)
			} else {
				raw, _ := gen.SynFile(t, rapid.IntRange(10, 150).Draw(t, "size"))
				src = []byte(raw)
			}
			src, _ = gen.Inject(t, src, gen.LayoutOpts{Max: 10, AvoidImports: true})
			cs, fix, err := oracle.Canon(src)
			if err != nil || !fix {
				h.Exclude("base does not parse / gofmt not idempotent")
				return c, false
			}
			if oracle.CommentInImportBlock(cs) {
				h.Exclude("comment inside an import block (go/format moves it)")
				return c, false
			}
			_, cms, _ := oracle.Scan(cs)
			ncomments += len(cms)
			if bytes.Contains(cs, []byte("`\n")) || bytes.Contains(cs, []byte("second line */")) || bytes.Contains(cs, []byte("`a\n")) {
				multiline = true
			}
			c.Srcs = append(c.Srcs, string(cs))
		}
		h.Label(fmt.Sprintf("files=%d", n))
		if ncomments >= 5 && multiline {
			h.NonTrivial(sub, strings.Join(c.Srcs, "\x00"), fmt.Sprint(c.Pre, c.OneFR, c.Extras))
		}
		h.Sample(sub, map[string]any{"files": n, "pre": c.Pre, "one_file_restorer": c.OneFR, "first": h.Trunc(c.Srcs[0], 300)})
		return c, true
	}
}

// ImpCase: positions of an import-managed restore after edits that make the restorer rewrite the
// import declarations (specs deleted, added, un-parenthesised).
type ImpCase struct {
	Libs        []gen.Lib         `json:"libs"`
	Root        map[string]string `json:"root"`
	Target      string            `json:"target"`
	Donor       string            `json:"donor,omitempty"`
	RemoveUses  []int             `json:"remove_uses"`
	DropImports bool              `json:"drop_imports"`
}

func checkImp(t h.TB, c ImpCase) {
	const sub = "ImportsEdited"
	names := map[string]string{"example.com/root": "root"}
	for _, l := range c.Libs {
		names[l.ImportPath], names[l.FullPath] = l.Name, l.Name
	}
	p := &gen.Prog{Libs: c.Libs, Names: names}
	imp, err := p.Importer()
	if err != nil {
		t.Fatalf("harness: %v", err)
	}
	ck, err := p.CheckSources(imp, "example.com/root", c.Root)
	if err != nil {
		t.Fatalf("harness: root does not type-check: %v", err)
	}
	dec := decorator.NewDecoratorWithImports(ck.Fset, "example.com/root", gotypes.New(ck.Info.Uses))
	files := map[string]*dst.File{}
	for n, af := range ck.Files {
		df, err := dec.DecorateFile(af)
		if err != nil {
			h.Fail(t, sub, c, "DecorateFile: %v", err)
		}
		files[n] = df
	}
	tf := files[c.Target]
	if c.Donor != "" && files[c.Donor] != nil {
		for _, d := range files[c.Donor].Decls {
			if gd, ok := d.(*dst.GenDecl); ok && gd.Tok == token.IMPORT {
				continue
			}
			tf.Decls = append(tf.Decls, dst.Clone(d).(dst.Decl))
		}
	}
	for _, li := range c.RemoveUses {
		if li < 0 || li >= len(c.Libs) {
			continue
		}
		var keep []dst.Decl
		for _, d := range tf.Decls {
			uses := false
			dst.Inspect(d, func(n dst.Node) bool {
				if id, ok := n.(*dst.Ident); ok && id.Path == c.Libs[li].ImportPath {
					uses = true
				}
				return true
			})
			if !uses {
				keep = append(keep, d)
			}
		}
		tf.Decls = keep
	}
	if c.DropImports {
		var keep []dst.Decl
		for _, d := range tf.Decls {
			if gd, ok := d.(*dst.GenDecl); ok && gd.Tok == token.IMPORT {
				continue
			}
			keep = append(keep, d)
		}
		tf.Decls = keep
	}
	res := decorator.NewRestorerWithImports("example.com/root", simple.New(names))
	fr := res.FileRestorer()
	fr.Name = "restored.go"
	var af *ast.File
	h.Guard(t, sub, c, func() { af, err = fr.RestoreFile(tf) })
	if err != nil {
		h.Fail(t, sub, c, "RestoreFile: %v", err)
	}
	judgeFile(t, sub, c, res.Fset, af, "restored.go", c.Root[c.Target])
}

func genImp(t *rapid.T) (ImpCase, bool) {
	const sub = "ImportsEdited"
	p := gen.GenProg(t, 1, 2)
	c := ImpCase{Libs: p.Libs, Root: p.RootSources("example.com/root"), DropImports: rapid.IntRange(0, 3).Draw(t, "drop") == 0}
	var fn []string
	for n := range c.Root {
		fn = append(fn, n)
	}
	sort.Strings(fn)
	c.Target = fn[rapid.IntRange(0, len(fn)-1).Draw(t, "target")]
	if len(fn) > 1 && rapid.Bool().Draw(t, "donor") {
		for _, n := range fn {
			if n != c.Target {
				c.Donor = n
			}
		}
	}
	for i, n := 0, rapid.IntRange(0, 3).Draw(t, "nremove"); i < n; i++ {
		c.RemoveUses = append(c.RemoveUses, rapid.IntRange(0, len(p.Libs)-1).Draw(t, "lib"))
	}
	h.NonTrivial(sub, fmt.Sprint(c.Root), fmt.Sprint(c.Target, c.Donor, c.RemoveUses, c.DropImports))
	h.Sample(sub, map[string]any{"target": h.Trunc(c.Root[c.Target], 300), "donor": c.Donor, "remove_uses": c.RemoveUses, "drop_imports": c.DropImports})
	return c, true
}

var propImp = h.Prop("ImportsEdited", genImp, checkImp)

func TestPropImportsEdited(t *testing.T) { rapid.Check(t, propImp) }

var prop = h.Prop("Positions", genCase("Positions"), check("Positions"))

func TestPropPositions(t *testing.T) { rapid.Check(t, prop) }

func TestReplay(t *testing.T) {
	known.RunWitnesses(t, "C12", func(t h.TB, w known.Witness) {
		// witnesses are judged strictly: the '=' of a generic alias must come after its type parameters
		df, err := decorator.Parse(w.Input)
		if err != nil {
			t.Fatalf("harness: %v", err)
		}
		_, af, err := decorator.RestoreFile(df)
		if err != nil {
			h.Fail(t, "Witness", w, "RestoreFile: %v", err)
		}
		ast.Inspect(af, func(n ast.Node) bool {
			if ts, ok := n.(*ast.TypeSpec); ok && ts.TypeParams != nil && ts.Assign.IsValid() && ts.Assign < ts.TypeParams.Opening {
				h.Fail(t, "Witness", w, "'=' of generic alias %s is positioned before its type parameter list", ts.Name.Name)
			}
			return true
		})
	})
	known.RunRegressions(t, "C12")
	files := gen.CorpusAll()
	stride := 1
	if os.Getenv("VERIF_TIER") != "thorough" {
		stride = 14
	}
	off := 0
	fmt.Sscan(os.Getenv("VERIF_SEED"), &off)
	for i := off % stride; i < len(files); i += stride {
		src := gen.ReadCorpus(files[i])
		if !oracle.IsCanon(src) {
			continue
		}
		if _, _, err := oracle.Parse(src); err != nil {
			continue // format.Source accepts fragments and empty files
		}
		h.Eval("CorpusSweep")
		check("CorpusSweep")(t, Case{Srcs: []string{string(src)}, Pre: i % 2, From: files[i]})
		h.NonTrivial("CorpusSweep", files[i])
	}
}

func init() {
	h.RegisterReplay("Witness", check("Witness"))
	h.RegisterReplay("CorpusSweep", check("CorpusSweep"))
	_ = dst.None
}

func TestReplayFile(t *testing.T) { h.TestReplayEnv(t) }
