package c14

import (
	"fmt"
	"go/ast"
	"go/parser"
	"go/token"
	"reflect"
	"sort"
	"strings"
	"testing"

	"github.com/dave/dst"
	"github.com/dave/dst/decorator"
	"github.com/dave/dst/dstutil"
	"golang.org/x/tools/go/ast/astutil"
	"pgregory.net/rapid"

	"verif/internal/gen"
	"verif/internal/h"
)

// SubCase applies to a sub-tree: the root handed to Apply is an expression, statement,
// declaration or spec, and Replace is used on every kind of slot (the root itself, single-node
// fields, list elements).
type SubCase struct {
	Src   string    `json:"src"`
	Root  int       `json:"root"` // ordinal (ast.Inspect order, modulo) among the Expr / Stmt / Decl / Spec nodes of the file
	Steps []SubStep `json:"steps"`
}

type SubStep struct {
	Ord     int  `json:"ord"`   // pre-order ordinal inside the traversal, 1 = the root
	Phase   int  `json:"phase"` // 0: Replace in pre, 1: in post
	PostRet bool `json:"post_ret"`
}

// replaceable reports the category of replacement a slot of static type ft accepts ("" = leave it alone).
func replaceable(ft reflect.Type, cur interface{}) string {
	switch ft.String() {
	case "ast.Expr", "dst.Expr", "*ast.Ident", "*dst.Ident":
		return "expr"
	case "ast.Stmt", "dst.Stmt":
		return "stmt"
	case "ast.Decl", "dst.Decl":
		return "decl"
	case "ast.Node", "dst.Node": // the root slot
		switch cur.(type) {
		case ast.Expr, dst.Expr:
			return "expr"
		case ast.Stmt, dst.Stmt:
			return "stmt"
		case ast.Decl, dst.Decl:
			return "decl"
		}
	}
	return ""
}

func slotType(parent interface{}, name string, index int) reflect.Type {
	f := reflect.Indirect(reflect.ValueOf(parent)).FieldByName(name)
	if !f.IsValid() {
		return reflect.TypeOf(0)
	}
	if index >= 0 {
		return f.Type().Elem()
	}
	return f.Type()
}

// shapeNoPath renders ast and dst trees so that they compare directly: dst.Ident.Path and the
// bool fields dst uses where go/ast has a token.Pos (which shape() skips) are left out.
func shapeNoPath(n interface{}) string {
	if n == nil {
		return "nil"
	}
	skipDst := map[string]bool{"Path": true, "Opening": true, "Closing": true, "Ellipsis": true, "Func": true, "RbraceHasNoPos": true, "Assign": true, "Lparen": true, "Rparen": true}
	var sb strings.Builder
	var rec func(v reflect.Value)
	rec = func(v reflect.Value) {
		switch v.Kind() {
		case reflect.Interface, reflect.Ptr:
			if v.IsNil() {
				sb.WriteString("nil")
				return
			}
			rec(v.Elem())
		case reflect.Struct:
			t := v.Type()
			if t.Name() == "Object" || t.Name() == "Scope" || t.Name() == "CommentGroup" {
				sb.WriteString("-")
				return
			}
			sb.WriteString("(" + t.Name())
			for i := 0; i < t.NumField(); i++ {
				f := t.Field(i)
				if f.Type == reflect.TypeOf(token.NoPos) || f.Name == "Obj" || f.Name == "Scope" || f.Name == "Doc" || f.Name == "Comment" || f.Name == "Comments" || f.Name == "Imports" || f.Name == "Unresolved" || f.Name == "Decs" || f.Name == "FileStart" || f.Name == "FileEnd" || f.Name == "GoVersion" || f.Name == "Incomplete" {
					continue
				}
				if skipDst[f.Name] && (f.Type.Kind() == reflect.Bool || f.Type.Kind() == reflect.String) {
					continue
				}
				sb.WriteString(" " + f.Name + "=")
				rec(v.Field(i))
			}
			sb.WriteString(")")
		case reflect.Slice:
			sb.WriteString("[")
			for i := 0; i < v.Len(); i++ {
				rec(v.Index(i))
				sb.WriteString(",")
			}
			sb.WriteString("]")
		default:
			fmt.Fprintf(&sb, "%v", v.Interface())
		}
	}
	rec(reflect.ValueOf(n))
	return sb.String()
}

func checkSub(t h.TB, c SubCase) {
	const sub = "Subtree"
	fset := token.NewFileSet()
	af, err := parser.ParseFile(fset, "x.go", c.Src, 0)
	if err != nil {
		t.Fatalf("harness: %v", err)
	}
	dec := decorator.NewDecorator(fset)
	if _, err := dec.DecorateFile(af); err != nil {
		h.Fail(t, sub, c, "DecorateFile: %v", err)
	}
	var cands []ast.Node
	ast.Inspect(af, func(n ast.Node) bool {
		switch n.(type) {
		case ast.Expr, ast.Stmt, ast.Decl, ast.Spec:
			cands = append(cands, n)
		}
		return true
	})
	if len(cands) == 0 {
		return
	}
	rootA := cands[c.Root%len(cands)]
	rootD := dec.Dst.Nodes[rootA]
	if rootD == nil {
		h.Fail(t, sub, c, "no dst counterpart for the chosen root %T", rootA)
	}
	steps := map[int]SubStep{}
	for _, s := range c.Steps {
		steps[s.Ord] = s
	}
	skip := func(name string, nodeNil bool) bool {
		return name == "Doc" || name == "Comment" || (name == "TypeParams" && nodeNil)
	}
	var la, ld []string
	var pa, pd interface{}
	var resA ast.Node
	var resD dst.Node
	replacedRoot := false
	func() {
		defer func() { pa = recover() }()
		k := 0
		var stack []int
		edit := func(cur *astutil.Cursor, ord int) {
			if cur.Node() == nil {
				return
			}
			id := ast.NewIdent(fmt.Sprintf("rep%d", ord))
			switch replaceable(slotType(cur.Parent(), cur.Name(), cur.Index()), cur.Node()) {
			case "expr":
				cur.Replace(id)
			case "stmt":
				cur.Replace(&ast.ExprStmt{X: id})
			case "decl":
				cur.Replace(&ast.GenDecl{Tok: token.VAR, Specs: []ast.Spec{&ast.ValueSpec{Names: []*ast.Ident{id}, Type: ast.NewIdent("int")}}})
			default:
				return
			}
			if ord == 1 {
				replacedRoot = true
			}
		}
		resA = astutil.Apply(rootA, func(cur *astutil.Cursor) bool {
			if skip(cur.Name(), cur.Node() == nil) {
				return true
			}
			k++
			stack = append(stack, k)
			la = append(la, fmt.Sprintf("pre %s parent=%s %s[%d]", desc(cur.Node()), desc(cur.Parent()), cur.Name(), cur.Index()))
			if s, ok := steps[k]; ok && s.Phase == 0 {
				edit(cur, k)
			}
			return true
		}, func(cur *astutil.Cursor) bool {
			if skip(cur.Name(), cur.Node() == nil) {
				return true
			}
			my := stack[len(stack)-1]
			stack = stack[:len(stack)-1]
			la = append(la, fmt.Sprintf("post %s parent=%s %s[%d]", desc(cur.Node()), desc(cur.Parent()), cur.Name(), cur.Index()))
			if s, ok := steps[my]; ok {
				if s.Phase == 1 {
					edit(cur, my)
				}
				return s.PostRet
			}
			return true
		})
	}()
	func() {
		defer func() {
			pd = recover()
			if pd != nil && reflect.TypeOf(pd).String() != "*errors.errorString" && fmt.Sprintf("%T", pd)[:min(6, len(fmt.Sprintf("%T", pd)))] == "rapid." {
				panic(pd)
			}
		}()
		k := 0
		var stack []int
		edit := func(cur *dstutil.Cursor, ord int) {
			if cur.Node() == nil {
				return
			}
			id := dst.NewIdent(fmt.Sprintf("rep%d", ord))
			switch replaceable(slotType(cur.Parent(), cur.Name(), cur.Index()), cur.Node()) {
			case "expr":
				cur.Replace(id)
			case "stmt":
				cur.Replace(&dst.ExprStmt{X: id})
			case "decl":
				cur.Replace(&dst.GenDecl{Tok: token.VAR, Specs: []dst.Spec{&dst.ValueSpec{Names: []*dst.Ident{id}, Type: dst.NewIdent("int")}}})
			}
		}
		resD = dstutil.Apply(rootD, func(cur *dstutil.Cursor) bool {
			if skip(cur.Name(), cur.Node() == nil) {
				return true
			}
			k++
			stack = append(stack, k)
			ld = append(ld, fmt.Sprintf("pre %s parent=%s %s[%d]", desc(cur.Node()), desc(cur.Parent()), cur.Name(), cur.Index()))
			if s, ok := steps[k]; ok && s.Phase == 0 {
				edit(cur, k)
			}
			return true
		}, func(cur *dstutil.Cursor) bool {
			if skip(cur.Name(), cur.Node() == nil) {
				return true
			}
			if len(stack) == 0 {
				panic("post called without a matching pre")
			}
			my := stack[len(stack)-1]
			stack = stack[:len(stack)-1]
			ld = append(ld, fmt.Sprintf("post %s parent=%s %s[%d]", desc(cur.Node()), desc(cur.Parent()), cur.Name(), cur.Index()))
			if s, ok := steps[my]; ok {
				if s.Phase == 1 {
					edit(cur, my)
				}
				return s.PostRet
			}
			return true
		})
	}()
	n := len(la)
	if len(ld) < n {
		n = len(ld)
	}
	for i := 0; i < n; i++ {
		if la[i] != ld[i] {
			h.Fail(t, sub, c, "callback %d differs: astutil %q, dstutil %q", i, la[i], ld[i])
		}
	}
	if len(la) != len(ld) {
		h.Fail(t, sub, c, "astutil.Apply made %d callbacks, dstutil.Apply %d (first extra: %v)", len(la), len(ld), firstExtra(la, ld, n))
	}
	if (pa == nil) != (pd == nil) {
		h.Fail(t, sub, c, "panic behaviour differs: astutil %v, dstutil %v", pa, pd)
	}
	if pa != nil {
		h.Label("sub:both-panic")
		return
	}
	if replacedRoot {
		h.Label("sub:root-replaced")
	}
	if a, b := shapeNoPath(resA), shapeNoPath(resD); a != b {
		h.Fail(t, sub, c, "Apply on a %s sub-tree returns different trees (root replaced: %v): %s", desc(rootA), replacedRoot, firstShapeDiff(a, b))
	}
	// the rest of the file must be the same too (Replace below the root writes into the parent slot)
	if !replacedRoot {
		if a, b := shapeNoPath(af), shapeNoPath(dec.Dst.Nodes[af]); a != b {
			h.Fail(t, sub, c, "files differ after Apply on a %s sub-tree: %s", desc(rootA), firstShapeDiff(a, b))
		}
	}
}

func genSub(t *rapid.T) (SubCase, bool) {
	const sub = "Subtree"
	raw, _ := gen.SynFile(t, rapid.IntRange(10, 80).Draw(t, "size"))
	if _, err := parser.ParseFile(token.NewFileSet(), "", raw, 0); err != nil {
		h.Exclude("base does not parse")
		return SubCase{}, false
	}
	c := SubCase{Src: raw, Root: rapid.IntRange(0, 2000).Draw(t, "root")}
	used := map[int]bool{}
	hasRoot := false
	for i, ns := 0, rapid.IntRange(1, 5).Draw(t, "nsteps"); i < ns; i++ {
		ord := rapid.IntRange(1, 12).Draw(t, "ord")
		if rapid.IntRange(0, 3).Draw(t, "atroot") == 0 {
			ord = 1
		}
		if used[ord] {
			continue
		}
		used[ord] = true
		hasRoot = hasRoot || ord == 1
		c.Steps = append(c.Steps, SubStep{Ord: ord, Phase: rapid.IntRange(0, 1).Draw(t, "phase"), PostRet: rapid.IntRange(0, 7).Draw(t, "postret") != 0})
	}
	sort.Slice(c.Steps, func(i, j int) bool { return c.Steps[i].Ord < c.Steps[j].Ord })
	if hasRoot {
		h.Label("sub:step-at-root")
	}
	h.NonTrivial(sub, c.Src, fmt.Sprint(c.Root, c.Steps))
	h.Sample(sub, map[string]any{"root": c.Root, "steps": c.Steps})
	return c, true
}

var propSub = h.Prop("Subtree", genSub, checkSub)

func TestPropSubtree(t *testing.T) { rapid.Check(t, propSub) }
