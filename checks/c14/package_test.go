package c14

import (
	"fmt"
	"go/ast"
	"go/parser"
	"go/token"
	"sort"
	"strings"
	"testing"

	"github.com/dave/dst"
	"github.com/dave/dst/decorator"
	"github.com/dave/dst/dstutil"
	"golang.org/x/tools/go/ast/astutil"
	"pgregory.net/rapid"

	"verif/internal/gen"
	"verif/internal/h"
)

// PkgCase applies to a whole package: the files are the children of the root, Cursor.Name is the
// file name, and Delete / Replace act on the Files map.
type PkgCase struct {
	Files map[string]string `json:"files"`
	Ops   map[string]int    `json:"ops"`   // file name -> 0 nothing, 1 Delete, 2 Replace by a fresh empty file
	Phase int               `json:"phase"` // 0: in pre, 1: in post
	Prune string            `json:"prune"` // pre returns false for this file
}

func checkPkgApply(t h.TB, c PkgCase) {
	const sub = "Package"
	fset := token.NewFileSet()
	apkg := &ast.Package{Name: "p", Files: map[string]*ast.File{}}
	var names []string
	for n := range c.Files {
		names = append(names, n)
	}
	sort.Strings(names)
	for _, n := range names {
		af, err := parser.ParseFile(fset, n, c.Files[n], 0)
		if err != nil {
			t.Fatalf("harness: %v", err)
		}
		apkg.Files[n] = af
	}
	node, err := decorator.NewDecorator(fset).DecorateNode(apkg)
	if err != nil {
		h.Fail(t, sub, c, "DecorateNode(*ast.Package): %v", err)
	}
	dpkg := node.(*dst.Package)
	var la, ld []string
	var pa, pd interface{}
	func() {
		defer func() { pa = recover() }()
		edit := func(cur *astutil.Cursor) {
			if _, isFile := cur.Node().(*ast.File); !isFile {
				return
			}
			switch c.Ops[cur.Name()] {
			case 1:
				cur.Delete()
			case 2:
				cur.Replace(&ast.File{Name: ast.NewIdent("replaced")})
			}
		}
		astutil.Apply(apkg, func(cur *astutil.Cursor) bool {
			if cur.Name() == "Doc" || cur.Name() == "Comment" || (cur.Name() == "TypeParams" && cur.Node() == nil) {
				return true
			}
			la = append(la, fmt.Sprintf("pre %s parent=%s %s[%d]", desc(cur.Node()), desc(cur.Parent()), cur.Name(), cur.Index()))
			if c.Phase == 0 {
				edit(cur)
			}
			_, isFile := cur.Node().(*ast.File)
			return !(isFile && cur.Name() == c.Prune)
		}, func(cur *astutil.Cursor) bool {
			if cur.Name() == "Doc" || cur.Name() == "Comment" || (cur.Name() == "TypeParams" && cur.Node() == nil) {
				return true
			}
			la = append(la, fmt.Sprintf("post %s parent=%s %s[%d]", desc(cur.Node()), desc(cur.Parent()), cur.Name(), cur.Index()))
			if c.Phase == 1 {
				edit(cur)
			}
			return true
		})
	}()
	func() {
		defer func() {
			pd = recover()
			if pd != nil && strings.HasPrefix(fmt.Sprintf("%T", pd), "rapid.") {
				panic(pd)
			}
		}()
		edit := func(cur *dstutil.Cursor) {
			if _, isFile := cur.Node().(*dst.File); !isFile {
				return
			}
			switch c.Ops[cur.Name()] {
			case 1:
				cur.Delete()
			case 2:
				cur.Replace(&dst.File{Name: dst.NewIdent("replaced")})
			}
		}
		dstutil.Apply(dpkg, func(cur *dstutil.Cursor) bool {
			if cur.Name() == "Doc" || cur.Name() == "Comment" || (cur.Name() == "TypeParams" && cur.Node() == nil) {
				return true
			}
			ld = append(ld, fmt.Sprintf("pre %s parent=%s %s[%d]", desc(cur.Node()), desc(cur.Parent()), cur.Name(), cur.Index()))
			if c.Phase == 0 {
				edit(cur)
			}
			_, isFile := cur.Node().(*dst.File)
			return !(isFile && cur.Name() == c.Prune)
		}, func(cur *dstutil.Cursor) bool {
			if cur.Name() == "Doc" || cur.Name() == "Comment" || (cur.Name() == "TypeParams" && cur.Node() == nil) {
				return true
			}
			ld = append(ld, fmt.Sprintf("post %s parent=%s %s[%d]", desc(cur.Node()), desc(cur.Parent()), cur.Name(), cur.Index()))
			if c.Phase == 1 {
				edit(cur)
			}
			return true
		})
	}()
	n := len(la)
	if len(ld) < n {
		n = len(ld)
	}
	for i := 0; i < n; i++ {
		if la[i] != ld[i] {
			h.Fail(t, sub, c, "callback %d differs: astutil %q, dstutil %q", i, la[i], ld[i])
		}
	}
	if len(la) != len(ld) {
		h.Fail(t, sub, c, "astutil.Apply made %d callbacks, dstutil.Apply %d (first extra: %v)", len(la), len(ld), firstExtra(la, ld, n))
	}
	if (pa == nil) != (pd == nil) {
		h.Fail(t, sub, c, "panic behaviour differs: astutil %v, dstutil %v", pa, pd)
	}
	if pa != nil {
		return
	}
	var ka, kd []string
	for k := range apkg.Files {
		ka = append(ka, k)
	}
	for k := range dpkg.Files {
		kd = append(kd, k)
	}
	sort.Strings(ka)
	sort.Strings(kd)
	if fmt.Sprint(ka) != fmt.Sprint(kd) {
		h.Fail(t, sub, c, "files of the package after Apply: astutil %v, dstutil %v", ka, kd)
	}
	for _, k := range ka {
		if a, b := shapeNoPath(apkg.Files[k]), shapeNoPath(dpkg.Files[k]); a != b {
			h.Fail(t, sub, c, "file %s differs after Apply: %s", k, firstShapeDiff(a, b))
		}
	}
}

func genPkgApply(t *rapid.T) (PkgCase, bool) {
	const sub = "Package"
	c := PkgCase{Files: map[string]string{}, Ops: map[string]int{}, Phase: rapid.IntRange(0, 1).Draw(t, "phase")}
	n := rapid.IntRange(1, 3).Draw(t, "nfiles")
	edits := 0
	for i := 0; i < n; i++ {
		name := []string{"a.go", "b.go", "c.go"}[i]
		raw, _ := gen.SynFile(t, rapid.IntRange(5, 30).Draw(t, "size"))
		if _, err := parser.ParseFile(token.NewFileSet(), "", raw, 0); err != nil {
			h.Exclude("base does not parse")
			return c, false
		}
		c.Files[name] = raw
		c.Ops[name] = rapid.IntRange(0, 2).Draw(t, "op")
		if c.Ops[name] > 0 {
			edits++
		}
		if rapid.IntRange(0, 5).Draw(t, "prune") == 0 {
			c.Prune = name
		}
	}
	if edits > 0 {
		h.Label("pkg:file-edit")
	}
	h.NonTrivial(sub, fmt.Sprint(c.Files), fmt.Sprint(c.Ops, c.Phase, c.Prune))
	h.Sample(sub, map[string]any{"files": n, "ops": c.Ops, "phase": c.Phase, "prune": c.Prune})
	return c, true
}

var propPkgApply = h.Prop("Package", genPkgApply, checkPkgApply)

func TestPropPackage(t *testing.T) { rapid.Check(t, propPkgApply) }
