// C14 — Apply follows astutil semantics for traversal and cursor edits.
// Oracle: golang.org/x/tools/go/ast/astutil.Apply (v0.1.12, the version dave/dst pins) run on the
// go/ast tree with the same script; plus the Cursor invariant checked by reflection.
package c14

import (
	"fmt"
	"go/ast"
	"go/parser"
	"go/token"
	"os"
	"reflect"
	"sort"
	"strings"
	"testing"

	"github.com/dave/dst"
	"github.com/dave/dst/decorator"
	"github.com/dave/dst/dstutil"
	"golang.org/x/tools/go/ast/astutil"
	"pgregory.net/rapid"

	"verif/internal/gen"
	"verif/internal/h"
	"verif/internal/known"
)

func TestMain(m *testing.M) { h.Main(m, "C14") }

// Step is what the callbacks do at the k-th visited node (pre-order ordinal, 1-based).
type Step struct {
	Ord     int   `json:"ord"`
	PreRet  bool  `json:"pre_ret"`
	PostRet bool  `json:"post_ret"`
	Phase   int   `json:"phase"` // 0: edits in pre, 1: edits in post
	Ops     []int `json:"ops"`   // 0 Replace 1 Delete 2 InsertBefore 3 InsertAfter
}

type Case struct {
	Src    string `json:"src"`
	From   string `json:"from,omitempty"`
	Steps  []Step `json:"steps"`
	NoPre  bool   `json:"no_pre"`  // pre == nil
	NoPost bool   `json:"no_post"` // post == nil
}

func shape(n interface{}) string {
	var sb strings.Builder
	var rec func(v reflect.Value)
	rec = func(v reflect.Value) {
		switch v.Kind() {
		case reflect.Interface, reflect.Ptr:
			if v.IsNil() {
				sb.WriteString("nil")
				return
			}
			rec(v.Elem())
		case reflect.Struct:
			t := v.Type()
			if t.Name() == "Object" || t.Name() == "Scope" || t.Name() == "CommentGroup" {
				sb.WriteString("-")
				return
			}
			sb.WriteString("(" + t.Name())
			for i := 0; i < t.NumField(); i++ {
				f := t.Field(i)
				if f.Type == reflect.TypeOf(token.NoPos) || f.Name == "Obj" || f.Name == "Scope" || f.Name == "Doc" || f.Name == "Comment" || f.Name == "Comments" || f.Name == "Imports" || f.Name == "Unresolved" || f.Name == "Decs" || f.Name == "FileStart" || f.Name == "FileEnd" || f.Name == "GoVersion" || f.Name == "Incomplete" {
					continue
				}
				sb.WriteString(" " + f.Name + "=")
				rec(v.Field(i))
			}
			sb.WriteString(")")
		case reflect.Slice:
			sb.WriteString("[")
			for i := 0; i < v.Len(); i++ {
				rec(v.Index(i))
				sb.WriteString(",")
			}
			sb.WriteString("]")
		default:
			fmt.Fprintf(&sb, "%v", v.Interface())
		}
	}
	rec(reflect.ValueOf(n))
	return sb.String()
}

func desc(n interface{}) string {
	if n == nil || reflect.ValueOf(n).IsNil() {
		return "nil"
	}
	s := fmt.Sprintf("%T", n)
	s = s[strings.LastIndex(s, ".")+1:]
	if strings.HasPrefix(fmt.Sprintf("%T", n), "*struct") {
		s = "root"
	}
	switch n := n.(type) {
	case *ast.Ident:
		s += ":" + n.Name
	case *dst.Ident:
		s += ":" + n.Name
	case *ast.BasicLit:
		s += ":" + n.Value
	case *dst.BasicLit:
		s += ":" + n.Value
	}
	return s
}

func mkAst(elem reflect.Type, cur ast.Node, tag string) ast.Node {
	id := ast.NewIdent(tag)
	switch elem.String() {
	case "ast.Stmt":
		return &ast.ExprStmt{X: id}
	case "ast.Expr", "*ast.Ident":
		return id
	case "ast.Decl":
		return &ast.GenDecl{Tok: token.VAR, Specs: []ast.Spec{&ast.ValueSpec{Names: []*ast.Ident{id}, Type: ast.NewIdent("int")}}}
	case "ast.Spec":
		switch cur.(type) {
		case *ast.ImportSpec:
			return &ast.ImportSpec{Path: &ast.BasicLit{Kind: token.STRING, Value: `"` + tag + `"`}}
		case *ast.TypeSpec:
			return &ast.TypeSpec{Name: id, Type: ast.NewIdent("int")}
		}
		return &ast.ValueSpec{Names: []*ast.Ident{id}, Type: ast.NewIdent("int")}
	case "*ast.Field":
		return &ast.Field{Type: id}
	}
	panic("harness: unknown element type " + elem.String())
}

func mkDst(elem reflect.Type, cur dst.Node, tag string) dst.Node {
	id := dst.NewIdent(tag)
	switch elem.String() {
	case "dst.Stmt":
		return &dst.ExprStmt{X: id}
	case "dst.Expr", "*dst.Ident":
		return id
	case "dst.Decl":
		return &dst.GenDecl{Tok: token.VAR, Specs: []dst.Spec{&dst.ValueSpec{Names: []*dst.Ident{id}, Type: dst.NewIdent("int")}}}
	case "dst.Spec":
		switch cur.(type) {
		case *dst.ImportSpec:
			return &dst.ImportSpec{Path: &dst.BasicLit{Kind: token.STRING, Value: `"` + tag + `"`}}
		case *dst.TypeSpec:
			return &dst.TypeSpec{Name: id, Type: dst.NewIdent("int")}
		}
		return &dst.ValueSpec{Names: []*dst.Ident{id}, Type: dst.NewIdent("int")}
	case "*dst.Field":
		return &dst.Field{Type: id}
	}
	panic("harness: unknown element type " + elem.String())
}

// cursorInvariant checks p.f == Node (Index < 0) or p.f[Index] == Node for a dst cursor.
func cursorInvariant(c *dstutil.Cursor) string {
	p := c.Parent()
	if p == nil {
		return ""
	}
	if pkg, ok := p.(*dst.Package); ok {
		if pkg.Files[c.Name()] != c.Node() {
			return "package file cursor does not locate its file"
		}
		return ""
	}
	f := reflect.Indirect(reflect.ValueOf(p)).FieldByName(c.Name())
	if !f.IsValid() {
		return fmt.Sprintf("parent %T has no field %q", p, c.Name())
	}
	var got interface{}
	if c.Index() >= 0 {
		if f.Kind() != reflect.Slice || c.Index() >= f.Len() {
			return fmt.Sprintf("Index %d out of range for %T.%s (len %d)", c.Index(), p, c.Name(), f.Len())
		}
		got = f.Index(c.Index()).Interface()
	} else {
		if f.Kind() == reflect.Slice {
			return fmt.Sprintf("Index < 0 for slice field %T.%s", p, c.Name())
		}
		got = f.Interface()
	}
	node := c.Node()
	if node == nil {
		if got == nil || reflect.ValueOf(got).IsNil() {
			return ""
		}
		return fmt.Sprintf("cursor node is nil but %T.%s holds %T", p, c.Name(), got)
	}
	if got != interface{}(node) {
		return fmt.Sprintf("%T.%s[%d] is not the cursor's node (%s)", p, c.Name(), c.Index(), desc(node))
	}
	return ""
}

type runResult struct {
	log      []string
	panicked interface{}
	edited   bool
}

func check(sub string) func(t h.TB, c Case) {
	return func(t h.TB, c Case) {
		fset := token.NewFileSet()
		af, err := parser.ParseFile(fset, "x.go", c.Src, 0)
		if err != nil {
			t.Fatalf("harness: %v", err)
		}
		df, err := decorator.DecorateFile(fset, af)
		if err != nil {
			h.Fail(t, sub, c, "DecorateFile: %v", err)
		}
		steps := map[int]Step{}
		for _, s := range c.Steps {
			steps[s.Ord] = s
		}
		get := func(k int) Step {
			if s, ok := steps[k]; ok {
				return s
			}
			return Step{PreRet: true, PostRet: true}
		}
		skip := func(name string, nodeNil bool) bool {
			// ast-only comment slots; nil TypeParams callbacks (astutil v0.1.12 skips them)
			return name == "Doc" || name == "Comment" || (name == "TypeParams" && nodeNil)
		}
		// reference run
		var ra runResult
		var resA ast.Node
		func() {
			defer func() { ra.panicked = recover() }()
			k, tag := 0, 0
			var stack []int
			edit := func(cur *astutil.Cursor, s Step) {
				if cur.Index() < 0 || cur.Node() == nil {
					return
				}
				elem := reflect.Indirect(reflect.ValueOf(cur.Parent())).FieldByName(cur.Name()).Type().Elem()
				for _, op := range s.Ops {
					tag++
					n := mkAst(elem, cur.Node(), fmt.Sprintf("ins%d", tag))
					ra.edited = true
					switch op {
					case 0:
						cur.Replace(n)
					case 1:
						cur.Delete()
					case 2:
						cur.InsertBefore(n)
					case 3:
						cur.InsertAfter(n)
					}
				}
			}
			pre := func(cur *astutil.Cursor) bool {
				if skip(cur.Name(), cur.Node() == nil) {
					return true
				}
				k++
				my := k
				stack = append(stack, my)
				s := get(my)
				ra.log = append(ra.log, fmt.Sprintf("pre %s parent=%s %s[%d]", desc(cur.Node()), desc(cur.Parent()), cur.Name(), cur.Index()))
				if s.Phase == 0 {
					edit(cur, s)
				}
				if !s.PreRet {
					stack = stack[:len(stack)-1]
				}
				return s.PreRet
			}
			post := func(cur *astutil.Cursor) bool {
				if skip(cur.Name(), cur.Node() == nil) {
					return true
				}
				var s Step
				if !c.NoPre {
					my := stack[len(stack)-1]
					stack = stack[:len(stack)-1]
					s = get(my)
				} else {
					k++
					s = get(k)
				}
				ra.log = append(ra.log, fmt.Sprintf("post %s parent=%s %s[%d]", desc(cur.Node()), desc(cur.Parent()), cur.Name(), cur.Index()))
				if s.Phase == 1 {
					edit(cur, s)
				}
				return s.PostRet
			}
			var p1, p2 astutil.ApplyFunc = pre, post
			if c.NoPre {
				p1 = nil
			}
			if c.NoPost {
				p2 = nil
			}
			resA = astutil.Apply(af, p1, p2)
		}()
		// dst run
		var rd runResult
		var resD dst.Node
		var inv string
		func() {
			defer func() {
				rd.panicked = recover()
				if rd.panicked != nil && strings.HasPrefix(fmt.Sprintf("%T", rd.panicked), "rapid.") {
					panic(rd.panicked)
				}
			}()
			k, tag := 0, 0
			var stack []int
			edit := func(cur *dstutil.Cursor, s Step) {
				if cur.Index() < 0 || cur.Node() == nil {
					return
				}
				elem := reflect.Indirect(reflect.ValueOf(cur.Parent())).FieldByName(cur.Name()).Type().Elem()
				for _, op := range s.Ops {
					tag++
					n := mkDst(elem, cur.Node(), fmt.Sprintf("ins%d", tag))
					switch op {
					case 0:
						cur.Replace(n)
					case 1:
						cur.Delete()
					case 2:
						cur.InsertBefore(n)
					case 3:
						cur.InsertAfter(n)
					}
				}
			}
			pre := func(cur *dstutil.Cursor) bool {
				if skip(cur.Name(), cur.Node() == nil) {
					return true
				}
				if m := cursorInvariant(cur); m != "" && inv == "" {
					inv = "pre: " + m
				}
				k++
				my := k
				stack = append(stack, my)
				s := get(my)
				rd.log = append(rd.log, fmt.Sprintf("pre %s parent=%s %s[%d]", desc(cur.Node()), desc(cur.Parent()), cur.Name(), cur.Index()))
				if s.Phase == 0 {
					edit(cur, s)
				}
				if !s.PreRet {
					stack = stack[:len(stack)-1]
				}
				return s.PreRet
			}
			post := func(cur *dstutil.Cursor) bool {
				if skip(cur.Name(), cur.Node() == nil) {
					return true
				}
				var s Step
				if !c.NoPre {
					if len(stack) == 0 {
						panic("post called without a matching pre")
					}
					my := stack[len(stack)-1]
					stack = stack[:len(stack)-1]
					s = get(my)
				} else {
					k++
					s = get(k)
				}
				rd.log = append(rd.log, fmt.Sprintf("post %s parent=%s %s[%d]", desc(cur.Node()), desc(cur.Parent()), cur.Name(), cur.Index()))
				if s.Phase == 1 {
					edit(cur, s)
				}
				return s.PostRet
			}
			var p1, p2 dstutil.ApplyFunc = pre, post
			if c.NoPre {
				p1 = nil
			}
			if c.NoPost {
				p2 = nil
			}
			resD = dstutil.Apply(df, p1, p2)
		}()
		// compare
		n := len(ra.log)
		if len(rd.log) < n {
			n = len(rd.log)
		}
		for i := 0; i < n; i++ {
			if ra.log[i] != rd.log[i] {
				h.Fail(t, sub, c, "callback %d differs: astutil %q, dstutil %q", i, ra.log[i], rd.log[i])
			}
		}
		if len(ra.log) != len(rd.log) {
			h.Fail(t, sub, c, "astutil.Apply made %d callbacks, dstutil.Apply %d (first extra: %v)", len(ra.log), len(rd.log), firstExtra(ra.log, rd.log, n))
		}
		if (ra.panicked == nil) != (rd.panicked == nil) {
			h.Fail(t, sub, c, "panic behaviour differs: astutil %v, dstutil %v", ra.panicked, rd.panicked)
		}
		if inv != "" && !ra.edited {
			h.Fail(t, sub, c, "Cursor invariant broken: %s", inv)
		}
		if ra.panicked != nil {
			h.Label("both-panic")
			return
		}
		if (resA == nil) != (resD == nil) {
			h.Fail(t, sub, c, "Apply result: astutil %T, dstutil %T", resA, resD)
		}
		if resD != dst.Node(df) {
			h.Fail(t, sub, c, "Apply did not return the (possibly modified) root")
		}
		var raf *ast.File
		var rerr error
		var rpan interface{}
		func() {
			defer func() { rpan = recover() }()
			_, raf, rerr = decorator.RestoreFile(df)
		}()
		if rpan != nil || rerr != nil {
			h.Fail(t, sub, c, "the tree left by dstutil.Apply cannot be restored: %v %v", rpan, rerr)
		}
		if a, b := shape(af), shape(raf); a != b {
			h.Fail(t, sub, c, "final trees differ: %s", firstShapeDiff(a, b))
		}
	}
}

func firstExtra(a, b []string, n int) string {
	if len(a) > n {
		return "astutil: " + a[n]
	}
	if len(b) > n {
		return "dstutil: " + b[n]
	}
	return ""
}

func firstShapeDiff(a, b string) string {
	i := 0
	for i < len(a) && i < len(b) && a[i] == b[i] {
		i++
	}
	lo := i - 80
	if lo < 0 {
		lo = 0
	}
	hi := func(s string) int {
		if i+80 < len(s) {
			return i + 80
		}
		return len(s)
	}
	return fmt.Sprintf("at %d: astutil ...%s... vs dstutil ...%s...", i, a[lo:hi(a)], b[lo:hi(b)])
}

func genCase(sub string) func(t *rapid.T) (Case, bool) {
	return func(t *rapid.T) (Case, bool) {
		var src []byte
		from := "G-SYN"
		if rapid.IntRange(0, 3).Draw(t, "src") == 0 {
			from, src = gen.CorpusFile(t)
		} else {
			raw, _ := gen.SynFile(t, rapid.IntRange(10, 120).Draw(t, "size"))
			src = []byte(raw)
		}
		fset := token.NewFileSet()
		af, err := parser.ParseFile(fset, "", src, 0)
		if err != nil {
			h.Exclude("base does not parse")
			return Case{}, false
		}
		total := 0
		ast.Inspect(af, func(n ast.Node) bool {
			if n != nil {
				total++
			}
			return true
		})
		c := Case{Src: string(src), From: from}
		switch rapid.IntRange(0, 9).Draw(t, "funcs") {
		case 0:
			c.NoPre = true
		case 1:
			c.NoPost = true
		}
		ns := rapid.IntRange(0, 8).Draw(t, "nsteps")
		used := map[int]bool{}
		kinds := map[int]bool{}
		nops := 0
		for i := 0; i < ns; i++ {
			// cluster steps: neighbouring ordinals hit siblings of one list
			var ord int
			if i > 0 && rapid.Bool().Draw(t, "near") {
				ord = c.Steps[len(c.Steps)-1].Ord + rapid.IntRange(1, 3).Draw(t, "delta")
			} else {
				ord = rapid.IntRange(1, total+2).Draw(t, "ord")
			}
			if used[ord] {
				continue
			}
			used[ord] = true
			s := Step{Ord: ord, PreRet: rapid.IntRange(0, 4).Draw(t, "preret") != 0, PostRet: rapid.IntRange(0, 15).Draw(t, "postret") != 0, Phase: rapid.IntRange(0, 1).Draw(t, "phase")}
			for j := rapid.IntRange(0, 3).Draw(t, "nops"); j > 0; j-- {
				op := rapid.IntRange(0, 3).Draw(t, "op")
				s.Ops = append(s.Ops, op)
				kinds[op] = true
				nops++
				h.Label([]string{"op:Replace", "op:Delete", "op:InsertBefore", "op:InsertAfter"}[op])
			}
			if !s.PreRet {
				h.Label("pre-false")
			}
			if !s.PostRet {
				h.Label("post-false")
			}
			c.Steps = append(c.Steps, s)
		}
		sort.Slice(c.Steps, func(i, j int) bool { return c.Steps[i].Ord < c.Steps[j].Ord })
		if nops >= 2 && len(kinds) >= 2 {
			h.NonTrivial(sub, c.Src, fmt.Sprint(c.Steps, c.NoPre, c.NoPost))
		}
		h.Sample(sub, map[string]any{"from": from, "steps": c.Steps, "no_pre": c.NoPre, "no_post": c.NoPost, "nodes": total})
		return c, true
	}
}

var prop = h.Prop("Differential", genCase("Differential"), check("Differential"))

func TestPropDifferential(t *testing.T) { rapid.Check(t, prop) }

func TestReplay(t *testing.T) {
	known.RunRegressions(t, "C14")
	files := gen.CorpusSmall()
	stride := 4
	if os.Getenv("VERIF_TIER") != "thorough" {
		stride = 40
	}
	off := 0
	fmt.Sscan(os.Getenv("VERIF_SEED"), &off)
	for i := off % stride; i < len(files); i += stride {
		src := gen.ReadCorpus(files[i])
		if _, err := parser.ParseFile(token.NewFileSet(), "", src, 0); err != nil {
			continue
		}
		h.Eval("CorpusSweep")
		// no-op traversal, and a fixed insert/delete pattern
		check("CorpusSweep")(t, Case{Src: string(src), From: files[i]})
		check("CorpusSweep")(t, Case{Src: string(src), From: files[i], Steps: []Step{
			{Ord: 9, PreRet: true, PostRet: true, Phase: 0, Ops: []int{3, 1}},
			{Ord: 12, PreRet: false, PostRet: true, Phase: 0, Ops: []int{2}},
			{Ord: 15, PreRet: true, PostRet: true, Phase: 1, Ops: []int{3, 3, 1}},
			{Ord: 21, PreRet: true, PostRet: true, Phase: 1, Ops: []int{0}},
		}})
		h.NonTrivial("CorpusSweep", files[i])
	}
}

func init() { h.RegisterReplay("CorpusSweep", check("CorpusSweep")) }

func TestReplayFile(t *testing.T) { h.TestReplayEnv(t) }
