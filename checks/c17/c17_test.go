// C17 — resolver failures surface as errors and leave the tree reusable.
// Fault enumeration: a dry run counts the resolver calls N of an operation, then the failure is
// injected at every k in 1..N.
package c17

import (
	"bytes"
	"errors"
	"fmt"
	"go/ast"
	"go/format"
	"go/token"
	"os"
	"path/filepath"
	"reflect"
	"sort"
	"strings"
	"testing"

	"github.com/dave/dst"
	"github.com/dave/dst/decorator"
	"github.com/dave/dst/decorator/resolver"
	"github.com/dave/dst/decorator/resolver/goast"
	"github.com/dave/dst/decorator/resolver/gotypes"
	"github.com/dave/dst/decorator/resolver/simple"
	"pgregory.net/rapid"

	"verif/internal/dsth"
	"verif/internal/gen"
	"verif/internal/h"
	"verif/internal/known"
)

func TestMain(m *testing.M) { h.Main(m, "C17") }

var errInjected = errors.New("injected resolver failure")

const rootPath = "example.com/root"

type Case struct {
	Libs        []gen.Lib         `json:"libs"`
	Root        map[string]string `json:"root"`
	Target      string            `json:"target"`
	DropImports bool              `json:"drop_imports"` // edit before restoring: all import declarations removed (the restorer must add them)
	RemoveUses  int               `json:"remove_uses"`  // edit before restoring (when > 0 and imports are kept): every declaration that refers to the (RemoveUses-1 mod n)-th referenced package is deleted, so that its import spec has to go
	K           int               `json:"k"`            // 0: enumerate every k; >0: only this k (set in replay files)
	Op          string            `json:"op"`           // "" all | "decorate-gotypes" | "decorate-goast" | "decorate-package" | "parsefile-broken" | "parsedir" | "restore"
}

// failing resolvers: fail exactly at the k-th call
type failIdent struct {
	inner resolver.DecoratorResolver
	k, n  int
}

func (f *failIdent) ResolveIdent(file *ast.File, parent ast.Node, parentField string, id *ast.Ident) (string, error) {
	f.n++
	if f.n == f.k {
		return "", errInjected
	}
	return f.inner.ResolveIdent(file, parent, parentField, id)
}

type failPkg struct {
	inner resolver.RestorerResolver
	k, n  int
}

func (f *failPkg) ResolvePackage(path string) (string, error) {
	f.n++
	if f.n == f.k {
		return "", errInjected
	}
	return f.inner.ResolvePackage(path)
}

func names(libs []gen.Lib) map[string]string {
	m := map[string]string{rootPath: "root"}
	for _, l := range libs {
		m[l.ImportPath] = l.Name
		m[l.FullPath] = l.Name
	}
	return m
}

func printAst(fset *token.FileSet, f *ast.File) string {
	var buf bytes.Buffer
	format.Node(&buf, fset, f)
	return buf.String()
}

// removeUses deletes every non-import declaration that refers to the i-th (sorted, modulo)
// package path referenced in the file.
func removeUses(f *dst.File, i int) {
	paths := map[string]bool{}
	dst.Inspect(f, func(n dst.Node) bool {
		if id, ok := n.(*dst.Ident); ok && id.Path != "" {
			paths[id.Path] = true
		}
		return true
	})
	if len(paths) == 0 {
		return
	}
	var ps []string
	for p := range paths {
		ps = append(ps, p)
	}
	sort.Strings(ps)
	victim := ps[i%len(ps)]
	var keep []dst.Decl
	for _, d := range f.Decls {
		uses := false
		if gd, ok := d.(*dst.GenDecl); !ok || gd.Tok != token.IMPORT {
			dst.Inspect(d, func(n dst.Node) bool {
				if id, ok := n.(*dst.Ident); ok && id.Path == victim {
					uses = true
				}
				return true
			})
		}
		if !uses {
			keep = append(keep, d)
		}
	}
	f.Decls = keep
}

func dropImports(f *dst.File) {
	var keep []dst.Decl
	for _, d := range f.Decls {
		if gd, ok := d.(*dst.GenDecl); ok && gd.Tok == token.IMPORT {
			continue
		}
		keep = append(keep, d)
	}
	f.Decls = keep
}

func hasDot(f *ast.File) bool {
	for _, is := range f.Imports {
		if is.Name != nil && is.Name.Name == "." {
			return true
		}
	}
	return false
}

func check(t h.TB, c Case) {
	const sub = "FaultAtK"
	p := &gen.Prog{Libs: c.Libs, Names: names(c.Libs)}
	imp, err := p.Importer()
	if err != nil {
		t.Fatalf("harness: %v", err)
	}
	ck, err := p.CheckSources(imp, rootPath, c.Root)
	if err != nil {
		t.Fatalf("harness: root does not type-check: %v", err)
	}
	af := ck.Files[c.Target]
	want := func(k int) bool { return c.K == 0 || c.K == k }

	// ---------- decoration, types-based resolver ----------
	if c.Op == "" || c.Op == "decorate-gotypes" {
		base := gotypes.New(ck.Info.Uses)
		dry := &failIdent{inner: base}
		ref, err := decorator.NewDecoratorWithImports(ck.Fset, rootPath, dry).DecorateFile(af)
		if err != nil {
			h.Fail(t, sub, c, "failure-free decoration failed: %v", err)
		}
		refDump := dsth.Dump(ref, dsth.DumpOpts{})
		astBefore := printAst(ck.Fset, af)
		h.LabelN("calls:decorate-gotypes", dry.n)
		for k := 1; k <= dry.n; k++ {
			if !want(k) {
				continue
			}
			cc := c
			cc.K, cc.Op = k, "decorate-gotypes"
			h.Eval("inject:decorate-gotypes")
			if k > 1 {
				h.NonTrivial(sub, "dg", fmt.Sprint(k), c.Root[c.Target])
			}
			var out *dst.File
			var derr error
			h.Guard(t, sub, cc, func() {
				out, derr = decorator.NewDecoratorWithImports(ck.Fset, rootPath, &failIdent{inner: base, k: k}).DecorateFile(af)
			})
			if derr == nil {
				h.Fail(t, sub, cc, "decoration returned no error although ResolveIdent call %d of %d failed", k, dry.n)
			}
			if !errors.Is(derr, errInjected) {
				h.Fail(t, sub, cc, "decoration error does not wrap the resolver's error: %v", derr)
			}
			if out != nil {
				h.Fail(t, sub, cc, "decoration returned a tree together with the resolver's error")
			}
			if printAst(ck.Fset, af) != astBefore {
				h.Fail(t, sub, cc, "the ast was modified by the failed decoration")
			}
			retry, rerr := decorator.NewDecoratorWithImports(ck.Fset, rootPath, base).DecorateFile(af)
			if rerr != nil {
				h.Fail(t, sub, cc, "retry with a working resolver failed: %v", rerr)
			}
			if dsth.Dump(retry, dsth.DumpOpts{}) != refDump {
				h.Fail(t, sub, cc, "retry after a failure at call %d gives another tree than a failure-free run", k)
			}
		}
	}

	// ---------- decoration, syntax-only resolver with a failing package-name resolver ----------
	if (c.Op == "" || c.Op == "decorate-goast") && !hasDot(af) {
		acc := simple.New(p.Names)
		dry := &failPkg{inner: acc}
		ref, err := decorator.NewDecoratorWithImports(ck.Fset, rootPath, goast.WithResolver(dry)).DecorateFile(af)
		if err != nil {
			h.Fail(t, sub, c, "failure-free goast decoration failed: %v", err)
		}
		refDump := dsth.Dump(ref, dsth.DumpOpts{})
		h.LabelN("calls:decorate-goast", dry.n)
		for k := 1; k <= dry.n; k++ {
			if !want(k) {
				continue
			}
			cc := c
			cc.K, cc.Op = k, "decorate-goast"
			h.Eval("inject:decorate-goast")
			if k > 1 {
				h.NonTrivial(sub, "da", fmt.Sprint(k), c.Root[c.Target])
			}
			flaky := &failPkg{inner: acc, k: k}
			shared := goast.WithResolver(flaky)
			var out *dst.File
			var derr error
			h.Guard(t, sub, cc, func() {
				out, derr = decorator.NewDecoratorWithImports(ck.Fset, rootPath, shared).DecorateFile(af)
			})
			if derr == nil || !errors.Is(derr, errInjected) || out != nil {
				h.Fail(t, sub, cc, "goast: ResolvePackage call %d of %d failed, decoration returned (%v, %v)", k, dry.n, out != nil, derr)
			}
			// retry (a) with the same resolver value, whose inner resolver works now, (b) with a fresh one
			for i, res := range []resolver.DecoratorResolver{shared, goast.WithResolver(acc)} {
				retry, rerr := decorator.NewDecoratorWithImports(ck.Fset, rootPath, res).DecorateFile(af)
				if rerr != nil {
					h.Fail(t, sub, cc, "goast retry %d failed: %v", i, rerr)
				}
				if dsth.Dump(retry, dsth.DumpOpts{}) != refDump {
					h.Fail(t, sub, cc, "goast: retry (%s resolver value) after a failure at call %d gives another tree than a failure-free run", []string{"same", "fresh"}[i], k)
				}
			}
		}
	}

	// ---------- decoration of a package node and of an isolated declaration ----------
	if c.Op == "" || c.Op == "decorate-package" {
		base := gotypes.New(ck.Info.Uses)
		roots := []func() ast.Node{
			func() ast.Node { return &ast.Package{Name: "root", Files: ck.Files} },
			func() ast.Node {
				for _, d := range af.Decls {
					if fd, ok := d.(*ast.FuncDecl); ok {
						return fd
					}
				}
				return nil
			},
		}
		for ri, mk := range roots {
			root := mk()
			if root == nil || reflect.ValueOf(root).IsNil() {
				continue
			}
			dry := &failIdent{inner: base}
			if _, err := decorator.NewDecoratorWithImports(ck.Fset, rootPath, dry).DecorateNode(root); err != nil {
				h.Fail(t, sub, c, "failure-free decoration of a %T failed: %v", root, err)
			}
			for k := 1; k <= dry.n; k++ {
				if !want(k) {
					continue
				}
				cc := c
				cc.K, cc.Op = k, "decorate-package"
				h.Eval("inject:decorate-node")
				if k > 1 {
					h.NonTrivial(sub, "dn", fmt.Sprint(ri, k), c.Root[c.Target])
				}
				var out dst.Node
				var derr error
				h.Guard(t, sub, cc, func() {
					out, derr = decorator.NewDecoratorWithImports(ck.Fset, rootPath, &failIdent{inner: base, k: k}).DecorateNode(root)
				})
				if derr == nil || !errors.Is(derr, errInjected) || (out != nil && !reflect.ValueOf(out).IsNil()) {
					h.Fail(t, sub, cc, "DecorateNode(%T): ResolveIdent call %d of %d failed, got (%v, %v)", root, k, dry.n, out != nil, derr)
				}
			}
		}
	}

	// ---------- ParseFile of a source with a recoverable syntax error ----------
	if (c.Op == "" || c.Op == "parsefile-broken") && !hasDot(af) {
		broken := c.Root[c.Target] + "\nfunc broken( {\n"
		acc := goast.WithResolver(simple.New(p.Names))
		dry := &failIdent{inner: acc}
		_, perr := decorator.NewDecoratorWithImports(token.NewFileSet(), rootPath, dry).ParseFile("b.go", broken, 0)
		if perr == nil {
			t.Fatalf("harness: the broken source parses")
		}
		for k := 1; k <= dry.n; k++ {
			if !want(k) {
				continue
			}
			cc := c
			cc.K, cc.Op = k, "parsefile-broken"
			h.Eval("inject:parsefile-broken")
			if k > 1 {
				h.NonTrivial(sub, "pb", fmt.Sprint(k), c.Root[c.Target])
			}
			var out *dst.File
			var derr error
			h.Guard(t, sub, cc, func() {
				out, derr = decorator.NewDecoratorWithImports(token.NewFileSet(), rootPath, &failIdent{inner: acc, k: k}).ParseFile("b.go", broken, 0)
			})
			if derr == nil || !errors.Is(derr, errInjected) {
				h.Fail(t, sub, cc, "ParseFile of a source with a syntax error: ResolveIdent call %d of %d failed, but the returned error does not wrap it: %v", k, dry.n, derr)
			}
			if out != nil {
				h.Fail(t, sub, cc, "ParseFile returned a tree together with the resolver's error")
			}
		}
	}

	// ---------- ParseDir with a failing resolver ----------
	anyDot := false
	for _, f := range ck.Files {
		anyDot = anyDot || hasDot(f)
	}
	if (c.Op == "" || c.Op == "parsedir") && !anyDot {
		dir, derr := os.MkdirTemp("", "verif-c17-")
		if derr != nil {
			t.Fatalf("infrastructure: %v", derr)
		}
		defer os.RemoveAll(dir)
		for n, src := range c.Root {
			if err := os.WriteFile(filepath.Join(dir, n), []byte(src), 0o644); err != nil {
				t.Fatalf("infrastructure: %v", err)
			}
		}
		acc := goast.WithResolver(simple.New(p.Names))
		dry := &failIdent{inner: acc}
		if _, err := decorator.NewDecoratorWithImports(token.NewFileSet(), rootPath, dry).ParseDir(dir, nil, 0); err != nil {
			h.Fail(t, sub, c, "failure-free ParseDir failed: %v", err)
		}
		ks := map[int]bool{1: true, 2: true, dry.n / 2: true, dry.n: true}
		for k := 1; k <= dry.n; k++ {
			if !want(k) || (c.K == 0 && !ks[k]) {
				continue
			}
			cc := c
			cc.K, cc.Op = k, "parsedir"
			h.Eval("inject:parsedir")
			if k > 1 {
				h.NonTrivial(sub, "pd", fmt.Sprint(k), c.Root[c.Target])
			}
			var out map[string]*dst.Package
			var perr error
			h.Guard(t, sub, cc, func() {
				out, perr = decorator.NewDecoratorWithImports(token.NewFileSet(), rootPath, &failIdent{inner: acc, k: k}).ParseDir(dir, nil, 0)
			})
			if perr == nil || !errors.Is(perr, errInjected) {
				h.Fail(t, sub, cc, "ParseDir: ResolveIdent call %d of %d failed, but the returned error does not wrap it: %v", k, dry.n, perr)
			}
			if out != nil {
				h.Fail(t, sub, cc, "ParseDir returned packages together with the resolver's error")
			}
		}
	}

	// ---------- restoration ----------
	if c.Op == "" || c.Op == "restore" {
		mk := func() *dst.File {
			df, err := decorator.NewDecoratorWithImports(ck.Fset, rootPath, gotypes.New(ck.Info.Uses)).DecorateFile(af)
			if err != nil {
				t.Fatalf("harness: %v", err)
			}
			if c.DropImports {
				dropImports(df)
			} else if c.RemoveUses > 0 {
				removeUses(df, c.RemoveUses-1)
			}
			return df
		}
		acc := simple.New(p.Names)
		dry := &failPkg{inner: acc}
		var refOut bytes.Buffer
		if err := decorator.NewRestorerWithImports(rootPath, dry).Fprint(&refOut, mk()); err != nil {
			h.Fail(t, sub, c, "failure-free restore failed: %v", err)
		}
		h.LabelN("calls:restore", dry.n)
		for k := 1; k <= dry.n; k++ {
			if !want(k) {
				continue
			}
			cc := c
			cc.K, cc.Op = k, "restore"
			h.Eval("inject:restore")
			if k > 1 {
				h.NonTrivial(sub, "r", fmt.Sprint(k, c.DropImports, c.RemoveUses), c.Root[c.Target])
			}
			df := mk()
			before := dsth.Dump(df, dsth.DumpOpts{})
			var w bytes.Buffer
			var rerr error
			h.Guard(t, sub, cc, func() {
				rerr = decorator.NewRestorerWithImports(rootPath, &failPkg{inner: acc, k: k}).Fprint(&w, df)
			})
			if rerr == nil || !errors.Is(rerr, errInjected) {
				h.Fail(t, sub, cc, "ResolvePackage call %d of %d failed, restore returned %v", k, dry.n, rerr)
			}
			if w.Len() != 0 {
				h.Fail(t, sub, cc, "the failed restore wrote %d bytes", w.Len())
			}
			if after := dsth.Dump(df, dsth.DumpOpts{}); after != before {
				h.Fail(t, sub, cc, "the failed restore (call %d of %d) modified the input tree:\n%s", k, dry.n, firstDiff(before, after))
			}
			var again bytes.Buffer
			if err := decorator.NewRestorerWithImports(rootPath, acc).Fprint(&again, df); err != nil {
				h.Fail(t, sub, cc, "retry with a working resolver failed: %v", err)
			}
			if again.String() != refOut.String() {
				h.Fail(t, sub, cc, "retry after a failure at call %d prints other bytes than a failure-free run\n--- retry ---\n%s\n--- failure-free ---\n%s", k, again.String(), refOut.String())
			}
		}
	}
}

func firstDiff(a, b string) string {
	al, bl := strings.Split(a, "\n"), strings.Split(b, "\n")
	for i := 0; i < len(al) && i < len(bl); i++ {
		if al[i] != bl[i] {
			return fmt.Sprintf("dump line %d: %q -> %q", i, al[i], bl[i])
		}
	}
	return fmt.Sprintf("dump has %d -> %d lines", len(al), len(bl))
}

func genCase(t *rapid.T) (Case, bool) {
	p := gen.GenProg(t, 1, 2)
	c := Case{Libs: p.Libs, Root: p.RootSources(rootPath), DropImports: rapid.Bool().Draw(t, "drop")}
	if !c.DropImports && rapid.Bool().Draw(t, "removeuses") {
		c.RemoveUses = 1 + rapid.IntRange(0, 5).Draw(t, "victim")
		h.Label("edit:remove-all-uses-of-one-package")
	}
	var fn []string
	for n := range c.Root {
		fn = append(fn, n)
	}
	sort.Strings(fn)
	c.Target = fn[rapid.IntRange(0, len(fn)-1).Draw(t, "target")]
	if c.DropImports {
		h.Label("edit:drop-all-imports")
	}
	h.Sample("FaultAtK", map[string]any{"target": h.Trunc(c.Root[c.Target], 400), "drop_imports": c.DropImports})
	return c, true
}

var prop = h.Prop("FaultAtK", genCase, check)

func TestPropFaultAtK(t *testing.T) { rapid.Check(t, prop) }

func TestReplay(t *testing.T) { known.RunRegressions(t, "C17") }

func TestReplayFile(t *testing.T) { h.TestReplayEnv(t) }
