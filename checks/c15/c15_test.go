// C15 — no input makes parsing or printing panic; malformed input is reported through the error.
package c15

import (
	"bytes"
	"go/parser"
	"go/token"
	"os"
	"path/filepath"
	"strings"
	"testing"

	"github.com/dave/dst"
	"github.com/dave/dst/decorator"
	"github.com/dave/dst/decorator/resolver/goast"
	"github.com/dave/dst/decorator/resolver/guess"
	"pgregory.net/rapid"

	"verif/internal/gen"
	"verif/internal/h"
	"verif/internal/known"
)

func TestMain(m *testing.M) { h.Main(m, "C15") }

type Case struct {
	Data  []byte   `json:"data"`
	Text  string   `json:"text_preview,omitempty"`
	Entry int      `json:"entry"`
	Ops   []string `json:"ops,omitempty"`
}

var entryNames = []string{"Parse(string)", "Parse([]byte)", "Parse(io.Reader)", "ParseFile(mode 0)", "ParseFile(AllErrors)", "ParseFile(DeclarationErrors)", "ParseFile(SkipObjectResolution)", "Decorator.Parse (shared fset)", "ParseDir", "Decorator.ParseFile+Restorer.Fprint",
	"Decorator(goast).ParseFile+Restorer(guess).Fprint", "Decorator(goast).ParseDir+Restorer(guess).Fprint", "Parse+Restorer(guess).Fprint"}

const selfPath = "example.com/self"

func check(sub string) func(t h.TB, c Case) {
	return func(t h.TB, c Case) {
		_, refErr := parser.ParseFile(token.NewFileSet(), "x.go", c.Data, parser.ParseComments)
		var f *dst.File
		var err error
		var files []*dst.File
		h.Guard(t, sub, c, func() {
			switch c.Entry {
			case 0:
				f, err = decorator.Parse(string(c.Data))
			case 1:
				f, err = decorator.Parse(c.Data)
			case 2:
				f, err = decorator.Parse(bytes.NewReader(c.Data))
			case 3:
				f, err = decorator.ParseFile(token.NewFileSet(), "x.go", c.Data, 0)
			case 4:
				f, err = decorator.ParseFile(token.NewFileSet(), "x.go", c.Data, parser.AllErrors)
			case 5:
				f, err = decorator.ParseFile(token.NewFileSet(), "x.go", c.Data, parser.DeclarationErrors)
			case 6:
				f, err = decorator.ParseFile(token.NewFileSet(), "x.go", c.Data, parser.SkipObjectResolution)
			case 7:
				fset := token.NewFileSet()
				parser.ParseFile(fset, "other.go", "package other\n", 0)
				f, err = decorator.NewDecorator(fset).Parse(c.Data)
			case 8:
				dir, derr := os.MkdirTemp("", "verif-c15-")
				if derr != nil {
					t.Fatalf("infrastructure: %v", derr)
				}
				defer os.RemoveAll(dir)
				os.WriteFile(filepath.Join(dir, "a.go"), c.Data, 0o644)
				os.WriteFile(filepath.Join(dir, "b.go"), []byte("package b\n\n// ok\nfunc B() {}\n"), 0o644)
				var pkgs map[string]*dst.Package
				pkgs, err = decorator.ParseDir(token.NewFileSet(), dir, nil, parser.ParseComments)
				if err == nil && pkgs == nil {
					h.Fail(t, sub, c, "ParseDir returned (nil, nil)")
				}
				for _, p := range pkgs {
					for _, pf := range p.Files {
						files = append(files, pf)
					}
				}
			case 9:
				d := decorator.NewDecorator(token.NewFileSet())
				f, err = d.ParseFile("x.go", c.Data, parser.ParseComments)
			case 10:
				d := decorator.NewDecoratorWithImports(token.NewFileSet(), selfPath, goast.New())
				f, err = d.ParseFile("x.go", c.Data, parser.ParseComments)
			case 11:
				dir, derr := os.MkdirTemp("", "verif-c15-")
				if derr != nil {
					t.Fatalf("infrastructure: %v", derr)
				}
				defer os.RemoveAll(dir)
				os.WriteFile(filepath.Join(dir, "a.go"), c.Data, 0o644)
				os.WriteFile(filepath.Join(dir, "b.go"), []byte("package b\n\nimport \"fmt\"\n\n// ok\nfunc B() { fmt.Println() }\n"), 0o644)
				var pkgs map[string]*dst.Package
				pkgs, err = decorator.NewDecoratorWithImports(token.NewFileSet(), selfPath, goast.New()).ParseDir(dir, nil, parser.ParseComments)
				if err == nil && pkgs == nil {
					h.Fail(t, sub, c, "ParseDir returned (nil, nil)")
				}
				for _, p := range pkgs {
					for _, pf := range p.Files {
						files = append(files, pf)
					}
				}
			case 12:
				f, err = decorator.Parse(c.Data)
			}
		})
		if c.Entry != 8 && c.Entry != 11 {
			if f == nil && err == nil {
				h.Fail(t, sub, c, "%s returned (nil, nil)", entryNames[c.Entry])
			}
			if refErr != nil && err == nil {
				h.Fail(t, sub, c, "%s returned no error for input that go/parser rejects (%v)", entryNames[c.Entry], refErr)
			}
			// entry 5 asks for declaration errors; entry 10 may be refused by the syntax-based resolver (property C09)
			if refErr == nil && err != nil && c.Entry != 5 && c.Entry != 10 {
				h.Fail(t, sub, c, "%s returned an error for input that go/parser accepts: %v", entryNames[c.Entry], err)
			}
			if f != nil {
				files = append(files, f)
			}
		} else if refErr != nil && err == nil {
			h.Fail(t, sub, c, "ParseDir returned no error although a.go does not parse (%v)", refErr)
		}
		for _, pf := range files {
			h.Guard(t, sub, c, func() {
				var buf bytes.Buffer
				if c.Entry == 9 {
					_ = decorator.NewRestorer().Fprint(&buf, pf)
				} else if c.Entry >= 10 {
					_ = decorator.NewRestorerWithImports(selfPath, guess.New()).Fprint(&buf, pf)
				} else {
					_ = decorator.Fprint(&buf, pf)
				}
			})
		}
	}
}

var seeds = []string{
	"", "x", "package", "// c", "package 1", "package p", "package p\n", "package p;", "package p\nfunc", "package p\nfunc f() {",
	"package p\nimport \"", "package p\nvar x = `", "package p\n/*", "package p\nfunc f() { x := [", "\x00", "\xef\xbb\xbf", "\xef\xbb\xbfpackage p",
	"package p\nfunc f() { switch { case", "package p\ntype T struct { a int `", "package p\nimport ( \"a\" ; ; )", "package p\nfunc (", "package p\nfunc f[T", "package p\n}", "package p\nvar _ = func() {", "package p\nfunc f() { L: }",
	"package p\nfunc f() { for range", "package p\nfunc f() { select { case <-", "package p\nfunc f() { if x := 1; {", "package p\nconst (\n", "//go:build x\n", "/* */ /* */", "package p\n\n// c\n", "package p\n\n/* c",
	"package p\nimport ()\n", "package p\nimport foo\n", "package p\nimport \"fm", "package p\n\nimport (\n\t\"a\"\n)\n\nimport ()\n\nimport \"C\"\n\nvar _ = a.X\n", "package p\nimport x 1\nvar _ = x.Y", "package p\n\nimport \"example.com/shop/vendor\"\n\nvar _ = vendor.X\n", "package p\n\nimport v \"vendor\"\n\nvar _ = v.X\n", "package p\n\nimport \"a/vendor/\"\n\nvar _ = vendor.X\n",
	"package p\nvar x = 08", "package p\nvar x = 1_", "package p\nvar x = '", "package p\nfunc f() { goto }", "package p\nfunc f() { a.. }", "package p\nimport . \"a\"\nimport _ \"a\"\nimport \"a\"",
}

func genCase(t *rapid.T) (Case, bool) {
	const sub = "Mutants"
	var base []byte
	from := ""
	switch rapid.IntRange(0, 3).Draw(t, "base") {
	case 0:
		base = []byte(seeds[rapid.IntRange(0, len(seeds)-1).Draw(t, "seed")])
		from = "hostile-seed"
	case 1:
		from, base = gen.CorpusFile(t)
		if len(base) > 3000 {
			base = base[:3000]
		}
	case 2:
		raw, _ := gen.SynFile(t, rapid.IntRange(5, 80).Draw(t, "size"))
		base, _ = gen.Inject(t, []byte(raw), gen.LayoutOpts{Max: 5})
		from = "G-SYN"
	default:
		base = rapid.SliceOfN(rapid.Byte(), 0, 60).Draw(t, "raw")
		from = "raw-bytes"
	}
	data, ops := gen.Mutate(t, base)
	if rapid.IntRange(0, 9).Draw(t, "nomut") == 0 {
		data, ops = base, []string{"none"}
	}
	c := Case{Data: data, Text: h.Trunc(string(data), 200), Entry: rapid.IntRange(0, len(entryNames)-1).Draw(t, "entry"), Ops: ops}
	h.Label("entry:" + entryNames[c.Entry])
	h.Label("base:" + from)
	_, perr := parser.ParseFile(token.NewFileSet(), "x.go", data, parser.ParseComments)
	if perr != nil {
		h.Label("class:parse-error")
		if strings.Contains(perr.Error(), "expected 'package'") {
			h.Label("class:no-package-clause")
		}
		h.NonTrivial(sub, string(data))
	} else {
		h.Label("class:parses")
	}
	h.Sample(sub, map[string]any{"entry": entryNames[c.Entry], "ops": ops, "data": h.Trunc(string(data), 200)})
	return c, true
}

var propMutants = h.Prop("Mutants", genCase, check("Mutants"))

func TestPropMutants(t *testing.T) { rapid.Check(t, propMutants) }

func TestReplay(t *testing.T) {
	known.RunWitnesses(t, "C15", func(t h.TB, w known.Witness) {
		for e := range entryNames {
			check("Witness")(t, Case{Data: []byte(w.Input), Entry: e})
		}
	})
	known.RunRegressions(t, "C15")
	for _, s := range seeds {
		for e := range entryNames {
			h.Eval("Seeds")
			check("Seeds")(t, Case{Data: []byte(s), Entry: e})
		}
		h.NonTrivial("Seeds", s)
	}
}

func init() {
	h.RegisterReplay("Witness", check("Witness"))
	h.RegisterReplay("Seeds", check("Seeds"))
	h.RegisterReplay("Fuzz", check("Fuzz"))
}

func TestReplayFile(t *testing.T) { h.TestReplayEnv(t) }

// FuzzParse is the coverage-guided byte-level target (thorough tier).
func FuzzParse(f *testing.F) {
	for _, s := range seeds {
		f.Add([]byte(s), uint8(0))
	}
	f.Add([]byte("package p\n\nimport \"fmt\"\n\n// c\nfunc f() {\n\tfmt.Println(`a\nb`) /* d */\n}\n"), uint8(3))
	f.Fuzz(func(t *testing.T, data []byte, e uint8) {
		h.Eval("Fuzz")
		check("Fuzz")(t, Case{Data: data, Entry: int(e) % len(entryNames)})
	})
}
