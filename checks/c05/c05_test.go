// C05 — Before/After spacing renders by the documented non-additive rule.
// Oracle: a reference model written from the statement renders the expected text line by line;
// gofmt of that text must equal the printed tree.
package c05

import (
	"bytes"
	"fmt"
	"go/token"
	"strings"
	"testing"

	"github.com/dave/dst"
	"github.com/dave/dst/decorator"
	"github.com/dave/dst/decorator/resolver/goast"
	"github.com/dave/dst/decorator/resolver/guess"
	"pgregory.net/rapid"

	"verif/internal/h"
	"verif/internal/known"
	"verif/internal/oracle"
)

func TestMain(m *testing.M) { h.Main(m, "C05") }

// Elem is the decoration of one list element.
type Elem struct {
	Before int      `json:"before"` // 0 None 1 NewLine 2 EmptyLine
	After  int      `json:"after"`
	Start  []string `json:"start"` // "// sN" or "\n"
	End    []string `json:"end"`   // "// eN" or "\n"
}

type Case struct {
	Kind  string   `json:"kind"` // stmts | decls | specs | fields | methods | clauses | comms
	Elems []Elem   `json:"elems"`
	Open  []string `json:"open"` // decorations on the opening delimiter (Lbrace / Lparen / Opening): "// o" and / or "\n"
}

type kindInfo struct {
	open, close string
	elem        func(i int) string
	tight       func(n int) string // canonical source with n elements, no decorations
	list        func(f *dst.File) []dst.Node
}

var kinds = map[string]kindInfo{
	"stmts": {"package p\n\nfunc f() {", "}\n", func(i int) string { return fmt.Sprintf("s%d()", i) }, nil,
		func(f *dst.File) []dst.Node { return stmts(f.Decls[0].(*dst.FuncDecl).Body.List) }},
	"decls": {"package p\n", "", func(i int) string { return fmt.Sprintf("var v%d int", i) }, nil,
		func(f *dst.File) []dst.Node { return decls(f.Decls) }},
	"specs": {"package p\n\nvar (", ")\n", func(i int) string { return fmt.Sprintf("v%d int", i) }, nil,
		func(f *dst.File) []dst.Node { return specs(f.Decls[0].(*dst.GenDecl).Specs) }},
	"fields": {"package p\n\ntype T struct {", "}\n", func(i int) string { return fmt.Sprintf("f%d int", i) }, nil,
		func(f *dst.File) []dst.Node {
			return fields(f.Decls[0].(*dst.GenDecl).Specs[0].(*dst.TypeSpec).Type.(*dst.StructType).Fields.List)
		}},
	"methods": {"package p\n\ntype I interface {", "}\n", func(i int) string { return fmt.Sprintf("m%d()", i) }, nil,
		func(f *dst.File) []dst.Node {
			return fields(f.Decls[0].(*dst.GenDecl).Specs[0].(*dst.TypeSpec).Type.(*dst.InterfaceType).Methods.List)
		}},
	"clauses": {"package p\n\nfunc f() {\n\tswitch x {", "\t}\n}\n", func(i int) string { return fmt.Sprintf("case %d:", i) }, nil,
		func(f *dst.File) []dst.Node {
			return stmts(f.Decls[0].(*dst.FuncDecl).Body.List[0].(*dst.SwitchStmt).Body.List)
		}},
	"comms": {"package p\n\nfunc f() {\n\tselect {", "\t}\n}\n", func(i int) string { return fmt.Sprintf("case <-c%d:", i) }, nil,
		func(f *dst.File) []dst.Node {
			return stmts(f.Decls[0].(*dst.FuncDecl).Body.List[0].(*dst.SelectStmt).Body.List)
		}},
}

func stmts(l []dst.Stmt) (o []dst.Node) {
	for _, x := range l {
		o = append(o, x)
	}
	return
}
func decls(l []dst.Decl) (o []dst.Node) {
	for _, x := range l {
		o = append(o, x)
	}
	return
}
func specs(l []dst.Spec) (o []dst.Node) {
	for _, x := range l {
		o = append(o, x)
	}
	return
}
func fields(l []*dst.Field) (o []dst.Node) {
	for _, x := range l {
		o = append(o, x)
	}
	return
}

func max(a, b int) int {
	if a > b {
		return a
	}
	return b
}

// model renders the expected text from the statement of the property:
//   - every element is on its own line;
//   - between two siblings there is exactly one blank line iff After(i) or Before(i+1) is
//     EmptyLine; Before of the first / After of the last decide the blank line at the delimiters;
//   - a line comment contributes its text and its own line break, an explicit "\n" decoration
//     its own line break; the line break that ends a comment or comes from a "\n" decoration
//     also serves as the first line break of the spacing that follows (non-additive).
func model(c Case) string {
	k := kinds[c.Kind]
	var sb strings.Builder
	sb.WriteString(k.open)
	atLineStart := true // the text so far ends with a line break
	absorb := false     // that line break came from a decoration
	space := func(s int) {
		n := s
		if n == 0 {
			n = 1 // own-line elements: the printer breaks the line anyway
		}
		if absorb {
			n--
		}
		for i := 0; i < n; i++ {
			sb.WriteString("\n")
		}
		if n > 0 {
			atLineStart = true
		}
		absorb = false
	}
	decs := func(ds []string, trailing bool) {
		for _, d := range ds {
			if d == "\n" {
				sb.WriteString("\n")
			} else {
				if !atLineStart {
					sb.WriteString(" ")
				}
				sb.WriteString(d + "\n")
			}
			atLineStart, absorb = true, true
		}
	}
	atLineStart = false
	decs(c.Open, true)
	for i, e := range c.Elems {
		if i == 0 {
			space(e.Before)
		} else {
			space(max(c.Elems[i-1].After, e.Before))
		}
		decs(e.Start, false)
		sb.WriteString(k.elem(i))
		atLineStart, absorb = false, false
		decs(e.End, true)
	}
	last := c.Elems[len(c.Elems)-1]
	space(last.After)
	sb.WriteString(k.close)
	return sb.String()
}

func tight(c Case) string {
	k := kinds[c.Kind]
	var sb strings.Builder
	sb.WriteString(k.open + "\n")
	for i := range c.Elems {
		sb.WriteString(k.elem(i) + "\n")
	}
	sb.WriteString(k.close)
	return sb.String()
}

func check(t h.TB, c Case) {
	const sub = "Spacing"
	src, _, err := oracle.Canon([]byte(tight(c)))
	if err != nil {
		t.Fatalf("harness: template does not parse: %v", err)
	}
	f, err := decorator.Parse(src)
	if err != nil {
		t.Fatalf("harness: %v", err)
	}
	list := kinds[c.Kind].list(f)
	if len(list) != len(c.Elems) {
		t.Fatalf("harness: template has %d elements, case %d", len(list), len(c.Elems))
	}
	for i, n := range list {
		d := n.Decorations()
		d.Before, d.After = dst.SpaceType(c.Elems[i].Before), dst.SpaceType(c.Elems[i].After)
		d.Start.Replace(c.Elems[i].Start...)
		d.End.Replace(c.Elems[i].End...)
	}
	if len(c.Open) > 0 {
		var od *dst.Decorations
		switch c.Kind {
		case "stmts":
			od = &f.Decls[0].(*dst.FuncDecl).Body.Decs.Lbrace
		case "specs":
			od = &f.Decls[0].(*dst.GenDecl).Decs.Lparen
		case "fields":
			od = &f.Decls[0].(*dst.GenDecl).Specs[0].(*dst.TypeSpec).Type.(*dst.StructType).Fields.Decs.Opening
		case "methods":
			od = &f.Decls[0].(*dst.GenDecl).Specs[0].(*dst.TypeSpec).Type.(*dst.InterfaceType).Methods.Decs.Opening
		case "clauses":
			od = &f.Decls[0].(*dst.FuncDecl).Body.List[0].(*dst.SwitchStmt).Body.Decs.Lbrace
		case "comms":
			od = &f.Decls[0].(*dst.FuncDecl).Body.List[0].(*dst.SelectStmt).Body.Decs.Lbrace
		}
		if od != nil {
			od.Replace(c.Open...)
		}
	}
	var buf bytes.Buffer
	h.Guard(t, sub, c, func() { err = decorator.Fprint(&buf, f) })
	if err != nil {
		h.Fail(t, sub, c, "Fprint: %v", err)
	}
	want, _, err := oracle.Canon([]byte(model(c)))
	if err != nil {
		t.Fatalf("harness: model text does not parse: %v\n%s", err, model(c))
	}
	if !bytes.Equal(buf.Bytes(), want) {
		h.Fail(t, sub, c, "printed tree differs from the spacing model: %s\n--- model ---\n%s--- printed ---\n%s", oracle.FirstDiffLine(want, buf.Bytes()), want, buf.Bytes())
	}
}

var kindNames = []string{"stmts", "decls", "specs", "fields", "methods", "clauses", "comms"}

func genCase(t *rapid.T) (Case, bool) {
	const sub = "Spacing"
	c := Case{Kind: kindNames[rapid.IntRange(0, len(kindNames)-1).Draw(t, "kind")]}
	n := rapid.IntRange(1, 6).Draw(t, "n")
	cn := 0
	for i := 0; i < n; i++ {
		e := Elem{Before: rapid.IntRange(0, 2).Draw(t, "before"), After: rapid.IntRange(0, 2).Draw(t, "after")}
		for j, m := 0, rapid.IntRange(0, 2).Draw(t, "nstart"); j < m; j++ {
			if rapid.IntRange(0, 2).Draw(t, "startkind") == 0 {
				e.Start = append(e.Start, "\n")
			} else {
				cn++
				e.Start = append(e.Start, fmt.Sprintf("// s%d", cn))
			}
		}
		{
			switch rapid.IntRange(0, 3).Draw(t, "end") {
			case 1:
				cn++
				e.End = []string{fmt.Sprintf("// e%d", cn)}
			case 2:
				cn++
				e.End = []string{fmt.Sprintf("// e%d", cn), "\n"}
			}
		}
		c.Elems = append(c.Elems, e)
	}
	// the premise: every element occupies its own line, i.e. the spacing at every boundary and at
	// both delimiters asks for at least a line break (with None everywhere the printer is free to
	// put a short body on one line, and a Start comment stays on the previous line).
	if c.Elems[0].Before == 0 {
		c.Elems[0].Before = 1
	}
	for i := 1; i < len(c.Elems); i++ {
		if max(c.Elems[i-1].After, c.Elems[i].Before) == 0 {
			if rapid.Bool().Draw(t, "fix") {
				c.Elems[i].Before = 1
			} else {
				c.Elems[i-1].After = 1
			}
		}
	}
	if c.Elems[len(c.Elems)-1].After == 0 {
		c.Elems[len(c.Elems)-1].After = 1
	}
	nontrivial := false
	for i := range c.Elems {
		if i > 0 && c.Elems[i-1].After != c.Elems[i].Before {
			nontrivial = true
		}
		if (len(c.Elems[i].Start) > 0 || len(c.Elems[i].End) > 0) && (c.Elems[i].Before == 2 || c.Elems[i].After == 2) {
			nontrivial = true
		}
	}
	if c.Kind != "decls" {
		switch rapid.IntRange(0, 5).Draw(t, "open") {
		case 0:
			c.Open = []string{"\n"}
		case 1:
			c.Open = []string{"// o"}
		case 2:
			c.Open = []string{"// o", "\n"}
		}
		if c.Open != nil {
			h.Label("opener-decoration")
		}
	}
	h.Label("kind:" + c.Kind)
	if len(c.Elems) >= 2 && nontrivial {
		h.NonTrivial(sub, fmt.Sprint(c))
	}
	h.Sample(sub, c)
	return c, true
}

var prop = h.Prop("Spacing", genCase, check)

func TestPropSpacing(t *testing.T) { rapid.Check(t, prop) }

// ExprCase: NewLine spacing on expression-level nodes splits argument lists and literals one
// element per line.
type ExprCase struct {
	Kind   string `json:"kind"` // args | elems | keyed | params | gparams | qualified
	N      int    `json:"n"`
	Spaces []int  `json:"spaces"` // Before of each element; After of the last is Spaces[N]
	Close  int    `json:"close"`  // args / qualified with last After == None: 1 = an explicit "\n" on the point in front of ')' (CallExpr.Ellipsis)
}

func checkExpr(t h.TB, c ExprCase) {
	const sub = "ExprSplit"
	var elems []string
	for i := 0; i < c.N; i++ {
		switch c.Kind {
		case "keyed":
			elems = append(elems, fmt.Sprintf("K%d: %d", i, i))
		case "params":
			elems = append(elems, fmt.Sprintf("a%d int", i))
		case "gparams":
			elems = append(elems, fmt.Sprintf("a%d %s", i, []string{"Pair[K, V]", "*Pair[K, V]", "[]Map[K, V]", "List[T]"}[i%4]))
		case "qualified":
			elems = append(elems, fmt.Sprintf("os.A%d", i))
		default:
			elems = append(elems, fmt.Sprintf("e%d", i))
		}
	}
	var src string
	switch c.Kind {
	case "args":
		src = "package p\n\nvar x = f(" + strings.Join(elems, ", ") + ")\n"
	case "qualified":
		src = "package p\n\nimport \"os\"\n\nvar x = f(" + strings.Join(elems, ", ") + ")\n"
	case "elems":
		src = "package p\n\nvar x = []T{" + strings.Join(elems, ", ") + "}\n"
	case "keyed":
		src = "package p\n\nvar x = T{" + strings.Join(elems, ", ") + "}\n"
	case "params", "gparams":
		src = "package p\n\nfunc f(" + strings.Join(elems, ", ") + ") {\n}\n"
	}
	var f *dst.File
	var err error
	if c.Kind == "qualified" {
		// qualified identifiers collapse to path-carrying identifiers under import management
		f, err = decorator.NewDecoratorWithImports(token.NewFileSet(), "p", goast.New()).Parse(src)
	} else {
		f, err = decorator.Parse(src)
	}
	if err != nil {
		t.Fatalf("harness: %v", err)
	}
	var list []dst.Node
	switch c.Kind {
	case "qualified":
		for _, a := range f.Decls[1].(*dst.GenDecl).Specs[0].(*dst.ValueSpec).Values[0].(*dst.CallExpr).Args {
			if id, ok := a.(*dst.Ident); !ok || id.Path != "os" {
				t.Fatalf("harness: argument is not a path-carrying identifier")
			}
			list = append(list, a)
		}
	case "args":
		for _, a := range f.Decls[0].(*dst.GenDecl).Specs[0].(*dst.ValueSpec).Values[0].(*dst.CallExpr).Args {
			list = append(list, a)
		}
	case "elems", "keyed":
		for _, a := range f.Decls[0].(*dst.GenDecl).Specs[0].(*dst.ValueSpec).Values[0].(*dst.CompositeLit).Elts {
			list = append(list, a)
		}
	case "params", "gparams":
		for _, a := range f.Decls[0].(*dst.FuncDecl).Type.Params.List {
			list = append(list, a)
		}
	}
	for i, n := range list {
		n.Decorations().Before = dst.SpaceType(c.Spaces[i])
	}
	list[len(list)-1].Decorations().After = dst.SpaceType(c.Spaces[c.N])
	closeText := ""
	if c.Close > 0 && (c.Kind == "args" || c.Kind == "qualified") {
		var call *dst.CallExpr
		dst.Inspect(f, func(n dst.Node) bool {
			if ce, ok := n.(*dst.CallExpr); ok && call == nil {
				call = ce
			}
			return true
		})
		call.Decs.Ellipsis.Append("\n")
		closeText = "\n"
	}
	var buf bytes.Buffer
	h.Guard(t, sub, c, func() {
		if c.Kind == "qualified" {
			err = decorator.NewRestorerWithImports("p", guess.New()).Fprint(&buf, f)
		} else {
			err = decorator.Fprint(&buf, f)
		}
	})
	if err != nil {
		h.Fail(t, sub, c, "Fprint: %v", err)
	}
	// model: a line break before element i iff Spaces[i] >= NewLine (blank line iff EmptyLine);
	// the closing delimiter on its own line iff Spaces[N] >= NewLine; gofmt adds the trailing comma.
	open, closer := map[string]string{"qualified": "import \"os\"\n\nvar x = f(", "args": "var x = f(", "elems": "var x = []T{", "keyed": "var x = T{", "params": "func f(", "gparams": "func f("}[c.Kind], map[string]string{"qualified": ")", "args": ")", "elems": "}", "keyed": "}", "params": ") {\n}", "gparams": ") {\n}"}[c.Kind]
	var sb strings.Builder
	sb.WriteString("package p\n\n" + open)
	for i, e := range elems {
		if c.Spaces[i] > 0 {
			sb.WriteString(strings.Repeat("\n", c.Spaces[i]))
		}
		sb.WriteString(e)
		if i < len(elems)-1 {
			sb.WriteString(", ")
		}
	}
	// an explicit "\n" or a line comment on the point in front of the closing parenthesis
	// contributes its own line break, which also serves as the first break of the last After
	if closeText != "" {
		sb.WriteString("," + closeText)
	} else if c.Spaces[c.N] > 0 {
		sb.WriteString("," + strings.Repeat("\n", c.Spaces[c.N]))
	}
	sb.WriteString(closer + "\n")
	want, _, err := oracle.Canon([]byte(sb.String()))
	if err != nil {
		t.Fatalf("harness: model text does not parse: %v\n%s", err, sb.String())
	}
	if !bytes.Equal(want, buf.Bytes()) {
		h.Fail(t, sub, c, "expression list does not split as the spacing says: %s\n--- model ---\n%s--- printed ---\n%s", oracle.FirstDiffLine(want, buf.Bytes()), want, buf.Bytes())
	}
}

func genExpr(t *rapid.T) (ExprCase, bool) {
	c := ExprCase{Kind: []string{"args", "elems", "keyed", "params", "qualified", "gparams"}[rapid.IntRange(0, 5).Draw(t, "kind")], N: rapid.IntRange(1, 5).Draw(t, "n")}
	allNL := rapid.Bool().Draw(t, "allnewline")
	for i := 0; i <= c.N; i++ {
		if allNL {
			c.Spaces = append(c.Spaces, 1)
		} else {
			c.Spaces = append(c.Spaces, rapid.IntRange(0, 2).Draw(t, "space"))
		}
	}
	// a closing delimiter on its own line needs ... nothing else; an element on its own line while
	// the closer stays on the last element's line is also valid Go
	if (c.Kind == "args" || c.Kind == "qualified") && c.Spaces[c.N] == 0 && rapid.Bool().Draw(t, "close") {
		c.Close = 1 // an explicit "\n" on the point in front of ')' puts the parenthesis on its own line
	}
	h.Label("exprkind:" + c.Kind)
	h.NonTrivial("ExprSplit", fmt.Sprint(c))
	h.Sample("ExprSplit", c)
	return c, true
}

var propExpr = h.Prop("ExprSplit", genExpr, checkExpr)

func TestPropExprSplit(t *testing.T) { rapid.Check(t, propExpr) }

// TestReplay enumerates exhaustively all Before/After/Start/End combinations for lists of one
// and two elements of every kind (the per-boundary state space).
func TestReplay(t *testing.T) {
	known.RunRegressions(t, "C05")
	starts := [][]string{nil, {"// s"}, {"\n"}, {"// s", "\n"}, {"\n", "// s"}}
	ends := [][]string{nil, {"// e"}, {"// e", "\n"}}
	n := 0
	for _, kind := range kindNames {
		for b0 := 0; b0 < 3; b0++ {
			for a0 := 0; a0 < 3; a0++ {
				for b1 := 0; b1 < 3; b1++ {
					for a1 := 0; a1 < 3; a1++ {
						for _, s1 := range starts {
							for _, e0 := range ends {
								if b0 == 0 || a1 == 0 || max(a0, b1) == 0 {
									continue // outside the premise: the elements are not asked to occupy their own lines
								}
								for _, op := range [][]string{nil, {"\n"}, {"// o"}} {
									if op != nil && (kind == "decls" || a0 != 1 || a1 != 1) {
										continue
									}
									c := Case{Kind: kind, Open: op, Elems: []Elem{{Before: b0, After: a0, End: e0}, {Before: b1, After: a1, Start: s1}}}
									h.Eval("Exhaustive2")
									check(t, c)
									h.NonTrivial("Exhaustive2", fmt.Sprint(c))
									n++
								}
							}
						}
					}
				}
			}
		}
	}
	t.Logf("exhaustive two-element lists: %d", n)
}

func TestReplayFile(t *testing.T) { h.TestReplayEnv(t) }
