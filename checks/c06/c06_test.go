// C06 — Clone is a complete, alias-free deep copy and the only legal way to reuse a node.
package c06

import (
	"bytes"
	"encoding/json"
	"fmt"
	"go/parser"
	"go/token"
	"reflect"
	"strings"
	"testing"

	"github.com/dave/dst"
	"github.com/dave/dst/decorator"
	"github.com/dave/dst/decorator/resolver/goast"
	"github.com/dave/dst/decorator/resolver/guess"
	"pgregory.net/rapid"

	"verif/internal/dsth"
	"verif/internal/gen"
	"verif/internal/h"
	"verif/internal/known"
	"verif/internal/oracle"
)

func TestMain(m *testing.M) { h.Main(m, "C06") }

type Case struct {
	Src   string `json:"src"`
	From  string `json:"from,omitempty"`
	Node  int    `json:"node"`           // index (Inspect order) of the node to clone, modulo node count
	Mut   int    `json:"mut"`            // index of the mutation target among the mutable leaves, modulo count
	Share int    `json:"share"`          // sharing scenario selector
	Salt  bool   `json:"salt,omitempty"` // every decoration list of the tree (also those the decorator never fills, e.g. FuncDecl.Type.Decs) gets a marker comment before cloning
}

// parseCase decorates the source and, for salted cases, appends a unique block comment to every
// dst.Decorations value reachable in the tree.
func parseCase(t h.TB, c Case) *dst.File {
	f := parse(t, c.Src)
	if c.Salt {
		n := 0
		decsType := reflect.TypeOf(dst.Decorations{})
		seen := map[uintptr]bool{}
		var walk func(v reflect.Value)
		walk = func(v reflect.Value) {
			switch v.Kind() {
			case reflect.Ptr:
				if v.IsNil() || seen[v.Pointer()] {
					return
				}
				seen[v.Pointer()] = true
				walk(v.Elem())
			case reflect.Interface:
				if !v.IsNil() {
					walk(v.Elem())
				}
			case reflect.Slice:
				if v.Type() == decsType {
					n++
					v.Set(reflect.Append(v, reflect.ValueOf(fmt.Sprintf("/*s%d*/", n))))
					return
				}
				for i := 0; i < v.Len(); i++ {
					walk(v.Index(i))
				}
			case reflect.Struct:
				if v.Type().Name() == "Object" || v.Type().Name() == "Scope" {
					return
				}
				for i := 0; i < v.NumField(); i++ {
					fn := v.Type().Field(i).Name
					if fn == "Obj" || fn == "Scope" || fn == "Imports" || fn == "Unresolved" {
						continue
					}
					if v.Field(i).CanSet() || v.Field(i).Kind() == reflect.Struct || v.Field(i).Kind() == reflect.Ptr || v.Field(i).Kind() == reflect.Interface || v.Field(i).Kind() == reflect.Slice {
						walk(v.Field(i))
					}
				}
			}
		}
		walk(reflect.ValueOf(f))
	}
	return f
}

func parse(t h.TB, src string) *dst.File {
	f, err := decorator.Parse(src)
	if err != nil {
		t.Fatalf("harness: base does not parse: %v", err)
	}
	return f
}

func print(f *dst.File) (out []byte, err error, panicked interface{}) {
	defer func() { panicked = recover() }()
	var buf bytes.Buffer
	err = decorator.Fprint(&buf, f)
	return buf.Bytes(), err, nil
}

// pointers collects node pointers and slice backing arrays reachable from n (Obj/Scope skipped).
func pointers(n interface{}) map[uintptr]string {
	out := map[uintptr]string{}
	var walk func(v reflect.Value, path string)
	walk = func(v reflect.Value, path string) {
		switch v.Kind() {
		case reflect.Interface:
			if !v.IsNil() {
				walk(v.Elem(), path)
			}
		case reflect.Ptr:
			if v.IsNil() {
				return
			}
			if tn := v.Elem().Type().Name(); tn == "Object" || tn == "Scope" {
				return
			}
			if _, ok := out[v.Pointer()]; ok {
				return
			}
			out[v.Pointer()] = path + ":" + v.Elem().Type().Name()
			walk(v.Elem(), path+"."+v.Elem().Type().Name())
		case reflect.Struct:
			for i := 0; i < v.NumField(); i++ {
				f := v.Type().Field(i)
				if tn := v.Type().Name(); (tn == "File" || tn == "Package") && (f.Name == "Imports" || f.Name == "Unresolved") {
					continue
				}
				walk(v.Field(i), path+"."+f.Name)
			}
		case reflect.Slice:
			if v.Len() > 0 {
				out[v.Pointer()] = path + "[] backing array"
			}
			for i := 0; i < v.Len(); i++ {
				walk(v.Index(i), fmt.Sprintf("%s[%d]", path, i))
			}
		case reflect.Map:
			if !v.IsNil() {
				out[v.Pointer()] = path + " map"
				for _, k := range v.MapKeys() {
					walk(v.MapIndex(k), path)
				}
			}
		}
	}
	walk(reflect.ValueOf(n), "")
	return out
}

// leaves lists the settable scalar leaves and slices of a tree (for mutation).
func leaves(n interface{}) []reflect.Value {
	var out []reflect.Value
	seen := map[uintptr]bool{}
	var walk func(v reflect.Value)
	walk = func(v reflect.Value) {
		switch v.Kind() {
		case reflect.Interface:
			if !v.IsNil() {
				walk(v.Elem())
			}
		case reflect.Ptr:
			if v.IsNil() || seen[v.Pointer()] {
				return
			}
			if tn := v.Elem().Type().Name(); tn == "Object" || tn == "Scope" {
				return
			}
			seen[v.Pointer()] = true
			walk(v.Elem())
		case reflect.Struct:
			for i := 0; i < v.NumField(); i++ {
				f := v.Type().Field(i)
				if tn := v.Type().Name(); (tn == "File" || tn == "Package") && (f.Name == "Imports" || f.Name == "Unresolved") {
					continue
				}
				walk(v.Field(i))
			}
		case reflect.Slice:
			if v.CanSet() {
				out = append(out, v)
			}
			for i := 0; i < v.Len(); i++ {
				walk(v.Index(i))
			}
		case reflect.String, reflect.Bool, reflect.Int:
			if v.CanSet() {
				out = append(out, v)
			}
		}
	}
	walk(reflect.ValueOf(n))
	return out
}

func mutate(v reflect.Value) string {
	switch v.Kind() {
	case reflect.String:
		v.SetString(v.String() + "_MUT")
		return "string"
	case reflect.Bool:
		v.SetBool(!v.Bool())
		return "bool"
	case reflect.Int:
		v.SetInt(v.Int() + 1)
		return "int"
	case reflect.Slice:
		if v.Len() > 0 && v.Index(0).Kind() == reflect.String {
			v.Index(0).SetString("/*MUT*/") // in place: visible through a shared backing array
			return "slice-elem-in-place"
		}
		if v.Len() > 1 {
			// swap in place
			a, b := v.Index(0).Interface(), v.Index(1).Interface()
			v.Index(0).Set(reflect.ValueOf(b))
			v.Index(1).Set(reflect.ValueOf(a))
			return "slice-swap-in-place"
		}
		if v.Len() == 1 {
			v.Set(v.Slice(0, 0))
			return "slice-truncate"
		}
		if v.Type().Elem().Kind() == reflect.String {
			v.Set(reflect.Append(v, reflect.ValueOf("/*APP*/")))
			return "slice-append"
		}
		return "none"
	}
	return "none"
}

func checkClone(t h.TB, c Case) {
	const sub = "Clone"
	f := parseCase(t, c)
	nodes := dsth.Nodes(f)
	n := nodes[c.Node%len(nodes)]
	before := dsth.Dump(n, dsth.DumpOpts{})
	var cl dst.Node
	h.Guard(t, sub, c, func() { cl = dst.Clone(n) })
	// (1) complete: same dump, objects dropped
	if after := dsth.Dump(cl, dsth.DumpOpts{}); after != before {
		h.Fail(t, sub, c, "Clone(%T) differs from the original:\n%s", n, firstDiff(before, after))
	}
	if strings.Contains(dsth.Dump(cl, dsth.DumpOpts{Objects: true}), "obj#") || strings.Contains(dsth.Dump(cl, dsth.DumpOpts{Objects: true}), "scope#") {
		h.Fail(t, sub, c, "Clone(%T) kept an Object or Scope link", n)
	}
	if dsth.Dump(n, dsth.DumpOpts{}) != before {
		h.Fail(t, sub, c, "Clone(%T) modified the original", n)
	}
	// (2) alias-free: no pointer / backing array / map shared
	po, pc := pointers(n), pointers(cl)
	for p, where := range pc {
		if w2, ok := po[p]; ok {
			h.Fail(t, sub, c, "clone of %T shares storage with the original: clone%s == original%s", n, where, w2)
		}
	}
	// (3) mutating either never changes the other
	lc := leaves(cl)
	if len(lc) > 0 {
		kind := mutate(lc[c.Mut%len(lc)])
		h.Label("mutation:" + kind)
		if dsth.Dump(n, dsth.DumpOpts{}) != before {
			h.Fail(t, sub, c, "mutating the clone of %T (%s) changed the original", n, kind)
		}
	}
	cl2 := dst.Clone(n)
	lo := leaves(n)
	if len(lo) > 0 {
		kind := mutate(lo[c.Mut%len(lo)])
		if dsth.Dump(cl2, dsth.DumpOpts{}) != before {
			h.Fail(t, sub, c, "mutating the original %T (%s) changed its clone", n, kind)
		}
	}
}

func firstDiff(a, b string) string {
	al, bl := strings.Split(a, "\n"), strings.Split(b, "\n")
	for i := 0; i < len(al) && i < len(bl); i++ {
		if al[i] != bl[i] {
			lo := i - 6
			if lo < 0 {
				lo = 0
			}
			return fmt.Sprintf("dump line %d:\n original: %s\n clone:    %s\n context:\n%s", i, al[i], bl[i], strings.Join(al[lo:i+1], "\n"))
		}
	}
	return fmt.Sprintf("dump length %d vs %d lines", len(al), len(bl))
}

// checkPrint: replacing a subtree by its clone, and cloning the whole file, print the same bytes.
func checkPrint(t h.TB, c Case) {
	const sub = "ClonePrint"
	f := parseCase(t, c)
	want, err, pv := print(f)
	if err != nil || pv != nil {
		t.Fatalf("harness: base does not print: %v %v", err, pv)
	}
	// whole-file clone
	f2 := parseCase(t, c)
	var whole *dst.File
	h.Guard(t, sub, c, func() { whole = dst.Clone(f2).(*dst.File) })
	got, err, pv := print(whole)
	if pv != nil || err != nil {
		h.Fail(t, sub, c, "printing a cloned file failed: %v %v", err, pv)
	}
	if !bytes.Equal(got, want) {
		h.Fail(t, sub, c, "cloned file prints differently: %s", oracle.FirstDiffLine(want, got))
	}
	// replace one element of a list by its clone
	f3 := parseCase(t, c)
	slots := listSlots(f3)
	if len(slots) == 0 {
		return
	}
	s := slots[c.Node%len(slots)]
	h.Guard(t, sub, c, func() { s.set(dst.Clone(s.get())) })
	got, err, pv = print(f3)
	if pv != nil || err != nil {
		h.Fail(t, sub, c, "printing after replacing %s by its clone failed: %v %v", s.name, err, pv)
	}
	if !bytes.Equal(got, want) {
		h.Fail(t, sub, c, "replacing %s by its clone changes the output: %s", s.name, oracle.FirstDiffLine(want, got))
	}
}

type slot struct {
	name string
	get  func() dst.Node
	set  func(dst.Node)
}

// listSlots enumerates every node-valued slot of the tree by reflection: pointer / interface
// fields and slice elements.
func listSlots(root dst.Node) []slot {
	var out []slot
	for _, n := range dsth.Nodes(root) {
		v := reflect.ValueOf(n).Elem()
		for i := 0; i < v.NumField(); i++ {
			f := v.Type().Field(i)
			if f.Name == "Obj" || f.Name == "Scope" || f.Name == "Decs" || f.Name == "Imports" || f.Name == "Unresolved" {
				continue
			}
			fv := v.Field(i)
			add := func(x reflect.Value, name string) {
				if (x.Kind() == reflect.Ptr || x.Kind() == reflect.Interface) && !x.IsNil() {
					if _, ok := x.Interface().(dst.Node); ok {
						x := x
						out = append(out, slot{name: name, get: func() dst.Node { return x.Interface().(dst.Node) }, set: func(n dst.Node) { x.Set(reflect.ValueOf(n)) }})
					}
				}
			}
			switch fv.Kind() {
			case reflect.Ptr, reflect.Interface:
				add(fv, dsth.TypeName(n)+"."+f.Name)
			case reflect.Slice:
				for j := 0; j < fv.Len(); j++ {
					add(fv.Index(j), fmt.Sprintf("%s.%s[%d]", dsth.TypeName(n), f.Name, j))
				}
			}
		}
	}
	return out
}

// checkSharePath: the same rule under import management, where a path-carrying identifier is
// restored as a selector expression through a separate code path.
func checkSharePath(t h.TB, c Case) {
	const sub = "Sharing"
	fset := token.NewFileSet()
	af, err := parser.ParseFile(fset, "a.go", c.Src, parser.ParseComments)
	if err != nil {
		t.Fatalf("harness: %v", err)
	}
	f, err := decorator.NewDecoratorWithImports(fset, "example.com/self", goast.New()).DecorateFile(af)
	if err != nil {
		return // dot-imports etc.: the syntax-only resolver refuses the file
	}
	var calls []*dst.CallExpr
	var idents []*dst.Ident
	dst.Inspect(f, func(n dst.Node) bool {
		switch n := n.(type) {
		case *dst.CallExpr:
			if !n.Ellipsis {
				calls = append(calls, n)
			}
		case *dst.Ident:
			if n.Path != "" {
				idents = append(idents, n)
			}
		}
		return true
	})
	if len(calls) == 0 || len(idents) == 0 {
		return
	}
	id := idents[c.Node%len(idents)]
	call := calls[c.Mut%len(calls)]
	h.Label("share:path-identifier-under-import-management")
	restore := func() (out string, pv interface{}) {
		defer func() { pv = recover() }()
		var buf bytes.Buffer
		err := decorator.NewRestorerWithImports("example.com/self", guess.New()).Fprint(&buf, f)
		if err != nil {
			return "error: " + err.Error(), nil
		}
		return buf.String(), nil
	}
	if c.Share%2 == 0 {
		call.Args = append(call.Args, id) // the identifier now occurs at two places
		out, pv := restore()
		if pv == nil {
			h.Fail(t, sub, c, "a path-carrying identifier %s (%s) placed twice was not rejected under import management (%d bytes printed)", id.Name, id.Path, len(out))
		}
		if !strings.Contains(fmt.Sprint(pv), "duplicate node") {
			h.Fail(t, sub, c, "sharing a path-carrying identifier panicked with %v, want a 'duplicate node' panic", pv)
		}
		return
	}
	call.Args = append(call.Args, dst.Clone(id).(dst.Expr))
	out, pv := restore()
	if pv != nil || strings.HasPrefix(out, "error: ") {
		h.Fail(t, sub, c, "tree with a cloned path-carrying identifier does not print: %v %s", pv, out)
	}
}

// checkShare: one node at two places is rejected with a panic at restore time; the same tree
// built with Clone prints both occurrences.
func checkShare(t h.TB, c Case) {
	const sub = "Sharing"
	if c.Share%5 == 4 {
		checkSharePath(t, c)
		return
	}
	f := parseCase(t, c)
	// candidate lists: declarations, block statements, call arguments, composite elements, fields
	type list struct {
		name   string
		len    func() int
		get    func(i int) dst.Node
		append func(n dst.Node)
	}
	var lists []list
	lists = append(lists, list{"File.Decls", func() int { return len(f.Decls) }, func(i int) dst.Node { return f.Decls[i] }, func(n dst.Node) { f.Decls = append(f.Decls, n.(dst.Decl)) }})
	for _, n := range dsth.Nodes(f) {
		switch n := n.(type) {
		case *dst.BlockStmt:
			lists = append(lists, list{"BlockStmt.List", func() int { return len(n.List) }, func(i int) dst.Node { return n.List[i] }, func(x dst.Node) { n.List = append(n.List, x.(dst.Stmt)) }})
		case *dst.CallExpr:
			if !n.Ellipsis {
				lists = append(lists, list{"CallExpr.Args", func() int { return len(n.Args) }, func(i int) dst.Node { return n.Args[i] }, func(x dst.Node) { n.Args = append(n.Args, x.(dst.Expr)) }})
			}
		case *dst.FieldList:
			lists = append(lists, list{"FieldList.List", func() int { return len(n.List) }, func(i int) dst.Node { return n.List[i] }, func(x dst.Node) { n.List = append(n.List, x.(*dst.Field)) }})
		case *dst.GenDecl:
			if n.Lparen && n.Tok != token.IMPORT { // go/format sorts and de-duplicates import specs itself
				lists = append(lists, list{"GenDecl.Specs", func() int { return len(n.Specs) }, func(i int) dst.Node { return n.Specs[i] }, func(x dst.Node) { n.Specs = append(n.Specs, x.(dst.Spec)) }})
			}
		}
	}
	var cands []list
	for _, l := range lists {
		if l.len() > 0 {
			cands = append(cands, l)
		}
	}
	if len(cands) == 0 {
		return
	}
	l := cands[c.Share%len(cands)]
	i := c.Node % l.len()
	elem := l.get(i)
	if gd, ok := elem.(*dst.GenDecl); ok && gd.Tok == token.IMPORT {
		return // an import declaration after other declarations is rejected by go/format itself
	}
	h.Label("share:" + l.name)
	if c.Share%2 == 0 {
		// (a) share the node itself: must panic with "duplicate node", nothing printed
		l.append(elem)
		out, err, pv := print(f)
		if pv == nil {
			h.Fail(t, sub, c, "a %T placed twice in %s was not rejected (err=%v, %d bytes printed)", elem, l.name, err, len(out))
		}
		if !strings.Contains(fmt.Sprint(pv), "duplicate node") {
			h.Fail(t, sub, c, "sharing a %T in %s panicked with %v, want a 'duplicate node' panic", elem, l.name, pv)
		}
		return
	}
	// (b) the same tree built from a clone prints, and the element occurs twice
	base, _, _ := print(parseCase(t, c))
	var cl dst.Node
	h.Guard(t, sub, c, func() { cl = dst.Clone(elem) })
	l.append(cl)
	out, err, pv := print(f)
	if pv != nil || err != nil {
		h.Fail(t, sub, c, "tree with a cloned %T appended to %s does not print: %v %v", elem, l.name, err, pv)
	}
	if _, err := parser.ParseFile(token.NewFileSet(), "", out, parser.ParseComments); err != nil {
		// appending e.g. a second variadic parameter or a default clause can be invalid Go; only
		// judge the count of tokens then
		h.Label("share:output-not-valid-go")
	}
	tb, _, _ := oracle.Scan(base)
	to, _, _ := oracle.Scan(out)
	var single bytes.Buffer
	{
		// tokens of the element alone: print a file that has only this element appended twice vs once
		f1 := parseCase(t, c)
		_ = f1
	}
	_ = single
	if len(to) <= len(tb) {
		h.Fail(t, sub, c, "appending a clone of %T to %s did not add its tokens (%d -> %d tokens)", elem, l.name, len(tb), len(to))
	}
	// appending a second clone adds the same number of tokens again (both occurrences complete)
	l.append(dst.Clone(elem))
	out2, err, pv := print(f)
	if pv != nil || err != nil {
		h.Fail(t, sub, c, "tree with two clones does not print: %v %v", err, pv)
	}
	to2, _, _ := oracle.Scan(out2)
	d1, d2 := len(to)-len(tb), len(to2)-len(to)
	if d1 != d2 && !(l.name == "CallExpr.Args" || l.name == "FieldList.List" || l.name == "GenDecl.Specs") {
		h.Fail(t, sub, c, "first clone added %d tokens, second clone added %d", d1, d2)
	}
}

func genCase(sub string) func(t *rapid.T) (Case, bool) {
	return func(t *rapid.T) (Case, bool) {
		var src []byte
		from := "G-SYN"
		if rapid.IntRange(0, 3).Draw(t, "src") == 0 {
			from, src = gen.CorpusFile(t)
		} else {
			raw, kinds := gen.SynFile(t, rapid.IntRange(10, 200).Draw(t, "size"))
			for k := range kinds {
				h.Label("syn:" + k)
			}
			src = []byte(raw)
		}
		src, _ = gen.Inject(t, src, gen.LayoutOpts{Max: 12})
		src, fix, err := oracle.Canon(src)
		if err != nil || !fix {
			h.Exclude("base does not parse / gofmt not idempotent")
			return Case{}, false
		}
		c := Case{Src: string(src), From: from, Node: rapid.IntRange(0, 1<<20).Draw(t, "node"), Mut: rapid.IntRange(0, 1<<20).Draw(t, "mut"), Share: rapid.IntRange(0, 1<<20).Draw(t, "share")}
		if sub != "Sharing" && rapid.IntRange(0, 2).Draw(t, "salt") == 0 {
			c.Salt = true
			h.Label("salted")
		}
		if sub == "Clone" {
			if f, err := decorator.Parse(src); err == nil {
				nodes := dsth.Nodes(f)
				n := nodes[c.Node%len(nodes)]
				h.Label("clone:" + dsth.TypeName(n))
				sub := dsth.Nodes(n)
				kinds := map[string]bool{}
				decorated := false
				for _, x := range sub {
					kinds[dsth.TypeName(x)] = true
					d := x.Decorations()
					if d != nil && (len(d.Start) > 0 || len(d.End) > 0) {
						decorated = true
					}
				}
				if len(kinds) >= 3 && decorated {
					h.NonTrivial("Clone", c.Src, fmt.Sprint(c.Node%len(nodes)))
				}
			}
		} else {
			h.NonTrivial(sub, c.Src, fmt.Sprint(c.Node, c.Share))
		}
		h.Sample(sub, map[string]any{"from": from, "node": c.Node, "src": h.Trunc(c.Src, 300)})
		return c, true
	}
}

var (
	propClone = h.Prop("Clone", genCase("Clone"), checkClone)
	propPrint = h.Prop("ClonePrint", genCase("ClonePrint"), checkPrint)
	propShare = h.Prop("Sharing", genCase("Sharing"), checkShare)
)

func TestPropClone(t *testing.T)      { rapid.Check(t, propClone) }
func TestPropClonePrint(t *testing.T) { rapid.Check(t, propPrint) }
func TestPropSharing(t *testing.T)    { rapid.Check(t, propShare) }

func TestReplay(t *testing.T) {
	known.RunWitnesses(t, "C06", func(t h.TB, w known.Witness) {
		var c Case
		if err := json.Unmarshal(w.Case, &c); err != nil {
			t.Fatalf("harness: witness %s: %v", w.Name, err)
		}
		checkClone(t, c)
		checkPrint(t, c)
	})
	known.RunRegressions(t, "C06")
	// every node of positions.go (the documented example of every node type and decoration point)
	src := gen.ReadCorpus(gen.RepoDir() + "/gendst/data/positions.go")
	f, err := decorator.Parse(src)
	if err != nil {
		t.Fatalf("positions.go: %v", err)
	}
	n := len(dsth.Nodes(f))
	types := map[string]bool{}
	for i := 0; i < n; i++ {
		h.Eval("Positions")
		checkClone(t, Case{Src: string(src), Node: i, Mut: i * 7})
		h.NonTrivial("Positions", fmt.Sprint(i))
	}
	for _, x := range dsth.Nodes(f) {
		types[dsth.TypeName(x)] = true
	}
	h.Note("positions.go: %d nodes, %d node types cloned", n, len(types))
	checkPrint(t, Case{Src: string(src)})
}

func TestReplayFile(t *testing.T) { h.TestReplayEnv(t) }
