// C09 — decorator resolvers assign package paths exactly to remote references.
// Oracle: go/types (the harness type-checks the program itself with an in-memory importer).
package c09

import (
	"errors"
	"fmt"
	"go/ast"
	"go/parser"
	"go/token"
	"go/types"
	"sort"
	"strings"
	"testing"

	"github.com/dave/dst"
	"github.com/dave/dst/decorator"
	"github.com/dave/dst/decorator/resolver/goast"
	"github.com/dave/dst/decorator/resolver/gotypes"
	"github.com/dave/dst/decorator/resolver/simple"
	"golang.org/x/tools/go/packages"
	"pgregory.net/rapid"

	"verif/internal/gen"
	"verif/internal/h"
	"verif/internal/known"
)

func TestMain(m *testing.M) { h.Main(m, "C09") }

type Case struct {
	Libs     []gen.Lib         `json:"libs"`
	Root     map[string]string `json:"root"`      // file name -> source of the root package
	RootPath string            `json:"root_path"` // package path of the root package (may be vendored)
	Shared   bool              `json:"shared"`    // one goast resolver instance for all files
}

func prog(c Case) *gen.Prog {
	p := &gen.Prog{Libs: c.Libs, Names: map[string]string{}}
	for _, l := range c.Libs {
		p.Names[l.ImportPath] = l.Name
		p.Names[l.FullPath] = l.Name
	}
	return p
}

// expected computes, from go/types alone, the path every identifier must carry, and which
// selector expressions are qualified identifiers.
type expectation struct {
	ident    map[*ast.Ident]string        // bare identifiers -> path ("" = none)
	selector map[*ast.SelectorExpr]string // qualified identifiers -> path
}

func expect(ck *gen.Checked, rootPath string) expectation {
	e := expectation{ident: map[*ast.Ident]string{}, selector: map[*ast.SelectorExpr]string{}}
	part := map[*ast.Ident]bool{}
	for _, f := range ck.Files {
		ast.Inspect(f, func(n ast.Node) bool {
			if se, ok := n.(*ast.SelectorExpr); ok {
				if x, ok := se.X.(*ast.Ident); ok {
					if pn, ok := ck.Info.Uses[x].(*types.PkgName); ok {
						e.selector[se] = gen.StripVendor(pn.Imported().Path())
						part[x], part[se.Sel] = true, true
					}
				}
			}
			return true
		})
		ast.Inspect(f, func(n ast.Node) bool {
			id, ok := n.(*ast.Ident)
			if !ok || part[id] {
				return true
			}
			e.ident[id] = ""
			obj := ck.Info.Uses[id]
			if obj == nil || obj.Pkg() == nil || obj.Pkg() == ck.Pkg {
				return true
			}
			if v, ok := obj.(*types.Var); ok && v.IsField() {
				return true
			}
			if obj.Parent() != obj.Pkg().Scope() {
				return true // methods, fields, labels ... are not package-level objects
			}
			if _, ok := obj.(*types.PkgName); ok {
				return true
			}
			e.ident[id] = gen.StripVendor(obj.Pkg().Path()) // reached through a dot-import
			return true
		})
	}
	return e
}

func judge(t h.TB, sub string, c Case, who string, dec *decorator.Decorator, ck *gen.Checked, e expectation, fname string) {
	f := ck.Files[fname]
	pos := func(n ast.Node) string { return ck.Fset.Position(n.Pos()).String() }
	ast.Inspect(f, func(n ast.Node) bool {
		switch n := n.(type) {
		case *ast.SelectorExpr:
			d := dec.Dst.Nodes[n]
			want, qualified := e.selector[n]
			id, collapsed := d.(*dst.Ident)
			if qualified != collapsed {
				h.Fail(t, sub, c, "%s: %s.%s at %s: go/types says qualified identifier=%v, decorator collapsed=%v", who, n.X, n.Sel.Name, pos(n), qualified, collapsed)
			}
			if qualified && (id.Path != want || id.Name != n.Sel.Name) {
				h.Fail(t, sub, c, "%s: qualified identifier %s.%s at %s got Path %q Name %q, want Path %q", who, n.X, n.Sel.Name, pos(n), id.Path, id.Name, want)
			}
		case *ast.Ident:
			want, bare := e.ident[n]
			if !bare {
				return true
			}
			d, ok := dec.Dst.Nodes[n].(*dst.Ident)
			if !ok {
				h.Fail(t, sub, c, "%s: identifier %s at %s has no dst.Ident", who, n.Name, pos(n))
			}
			if d.Path != want {
				h.Fail(t, sub, c, "%s: identifier %s at %s got Path %q, go/types says %q", who, n.Name, pos(n), d.Path, want)
			}
		}
		return true
	})
}

func check(t h.TB, c Case) {
	const sub = "Resolvers"
	p := prog(c)
	imp, err := p.Importer()
	if err != nil {
		t.Fatalf("harness: libraries do not type-check: %v", err)
	}
	ck, err := p.CheckSources(imp, c.RootPath, c.Root)
	if err != nil {
		t.Fatalf("harness: root package does not type-check: %v", err)
	}
	e := expect(ck, c.RootPath)
	var names []string
	for n := range ck.Files {
		names = append(names, n)
	}
	sort.Strings(names)
	// types-based resolver: one decorator for the package
	dec := decorator.NewDecoratorWithImports(ck.Fset, c.RootPath, gotypes.New(ck.Info.Uses))
	for _, n := range names {
		h.Guard(t, sub, c, func() { _, err = dec.DecorateFile(ck.Files[n]) })
		if err != nil {
			h.Fail(t, sub, c, "gotypes: DecorateFile(%s): %v", n, err)
		}
		judge(t, sub, c, "gotypes", dec, ck, e, n)
	}
	// the constructor for a loaded package: go/packages gives test variants an ID that differs from
	// the package path ("p [p.test]"); the local path is the package path
	pdec := decorator.NewDecoratorFromPackage(&packages.Package{ID: c.RootPath + " [" + c.RootPath + ".test]", PkgPath: c.RootPath, Fset: ck.Fset, TypesInfo: ck.Info})
	for _, n := range names {
		h.Guard(t, sub, c, func() { _, err = pdec.DecorateFile(ck.Files[n]) })
		if err != nil {
			h.Fail(t, sub, c, "NewDecoratorFromPackage: DecorateFile(%s): %v", n, err)
		}
		judge(t, sub, c, "NewDecoratorFromPackage", pdec, ck, e, n)
	}
	// syntax-only resolver with accurate names; files are re-parsed so that nothing is shared
	accurate := simple.New(p.Names)
	shared := goast.WithResolver(accurate)
	for _, n := range names {
		hasDot := false
		for _, is := range ck.Files[n].Imports {
			if is.Name != nil && is.Name.Name == "." {
				hasDot = true
			}
		}
		res := shared
		if !c.Shared {
			res = goast.WithResolver(accurate)
		}
		d2 := decorator.NewDecoratorWithImports(ck.Fset, c.RootPath, res)
		var derr error
		h.Guard(t, sub, c, func() { _, derr = d2.DecorateFile(ck.Files[n]) })
		if hasDot {
			if derr == nil && usesSelector(ck.Files[n]) {
				h.Fail(t, sub, c, "goast: file %s has a dot-import but decoration returned no error", n)
			}
			// ask again: the answer must not change (no guessing after a first refusal)
			_, again := res.ResolveIdent(ck.Files[n], &ast.SelectorExpr{X: ast.NewIdent("zz"), Sel: ast.NewIdent("Q")}, "Sel", ast.NewIdent("Q"))
			if again == nil {
				h.Fail(t, sub, c, "goast: second ResolveIdent on dot-import file %s returned no error", n)
			}
			continue
		}
		if derr != nil {
			h.Fail(t, sub, c, "goast: DecorateFile(%s): %v", n, derr)
		}
		judge(t, sub, c, "goast", d2, ck, e, n)
	}
}

func usesSelector(f *ast.File) bool {
	found := false
	ast.Inspect(f, func(n ast.Node) bool {
		if _, ok := n.(*ast.SelectorExpr); ok {
			found = true
		}
		return !found
	})
	return found
}

func genCase(t *rapid.T) (Case, bool) {
	const sub = "Resolvers"
	p := gen.GenProg(t, 1, 3)
	c := Case{Libs: p.Libs, Root: p.RootSources("example.com/root"), RootPath: "example.com/root", Shared: rapid.Bool().Draw(t, "shared")}
	if rapid.IntRange(0, 4).Draw(t, "vendoredroot") == 0 {
		c.RootPath = "example.com/host/vendor/example.com/root"
		h.Label("root-under-vendor")
	}
	nontrivial := false
	if rapid.IntRange(0, 3).Draw(t, "requote") == 0 {
		var fn []string
		for n := range c.Root {
			fn = append(fn, n)
		}
		sort.Strings(fn)
		for _, n := range fn {
			if out, ok := gen.Requote(t, p.Libs, c.Root[n]); ok {
				c.Root[n] = out
				h.Label("raw-or-escaped-import-path")
				nontrivial = true
			}
		}
	}
	if rapid.IntRange(0, 4).Draw(t, "cgo") == 0 {
		// the cgo pseudo-import inside a parenthesised import declaration, at any position
		var fn []string
		for n := range c.Root {
			fn = append(fn, n)
		}
		sort.Strings(fn)
		for _, n := range fn {
			src := c.Root[n]
			i := strings.Index(src, "import (\n")
			if i < 0 {
				continue
			}
			j := i + strings.Index(src[i:], "\n)")
			lines := strings.Split(src[i+len("import (\n"):j], "\n")
			at := rapid.IntRange(0, len(lines)).Draw(t, "cgopos")
			lines = append(lines[:at:at], append([]string{"\t\"C\""}, lines[at:]...)...)
			c.Root[n] = src[:i] + "import (\n" + strings.Join(lines, "\n") + src[j:]
			h.Label("cgo-import-inside-a-group")
			nontrivial = true
		}
	}
	for _, f := range p.Files {
		for _, im := range f.Imports {
			if im.Alias == "." {
				h.Label("dot-import")
				nontrivial = true
			}
			if strings.Contains(p.Libs[im.Lib].FullPath, "/vendor/") {
				h.Label("vendored-lib")
				nontrivial = true
			}
		}
		if strings.Contains(f.Src, "f := x.M") || strings.Contains(f.Src, "int) int {\n\treturn") {
			nontrivial = true
		}
	}
	if nontrivial {
		var key []string
		for n, s := range c.Root {
			key = append(key, n+s)
		}
		sort.Strings(key)
		h.NonTrivial(sub, strings.Join(key, "\x00"), c.RootPath)
	}
	var first string
	for _, s := range c.Root {
		first = s
		break
	}
	h.Sample(sub, map[string]any{"libs": len(c.Libs), "files": len(c.Root), "root_path": c.RootPath, "one_file": h.Trunc(first, 500)})
	return c, true
}

var prop = h.Prop("Resolvers", genCase, check)

func TestPropResolvers(t *testing.T) { rapid.Check(t, prop) }

// Ambiguous files (two imports under one name) cannot be type-checked; the syntax-only resolver
// must refuse them.
func TestReplay(t *testing.T) {
	known.RunRegressions(t, "C09")
	for i, src := range []string{
		"package p\n\nimport (\n\t\"a/util\"\n\t\"b/util\"\n)\n\nvar _ = util.X\n",
		"package p\n\nimport (\n\tu \"a/x\"\n\tu \"b/y\"\n)\n\nvar _ = u.X\n",
		"package p\n\nimport . \"a/x\"\n\nvar _ = X\nvar _ = p.Y\n",
	} {
		h.Eval("Ambiguous")
		fset := token.NewFileSet()
		f, err := parser.ParseFile(fset, "a.go", src, parser.ParseComments)
		if err != nil {
			t.Fatal(err)
		}
		res := goast.WithResolver(simple.New(map[string]string{"a/util": "util", "b/util": "util", "a/x": "x", "b/y": "y"}))
		_, err = decorator.NewDecoratorWithImports(fset, "root", res).DecorateFile(f)
		if err == nil && i < 2 {
			h.Fail(t, "Ambiguous", src, "goast resolved a file in which two imports share one name")
		}
		_, err2 := res.ResolveIdent(f, &ast.SelectorExpr{X: ast.NewIdent("util"), Sel: ast.NewIdent("X")}, "Sel", ast.NewIdent("X"))
		if err2 == nil {
			h.Fail(t, "Ambiguous", src, "goast.ResolveIdent returned no error on an undecidable file (case %d)", i)
		}
		if errors.Is(err2, nil) {
			t.Fatal("unreachable")
		}
		h.NonTrivial("Ambiguous", fmt.Sprint(i))
	}
}

func TestReplayFile(t *testing.T) { h.TestReplayEnv(t) }
