// C07 — import-managed restore binds each reference to its package; imports stay exact.
// Oracle: go/types on the printed output (what every identifier denotes) + go/parser (the
// import declarations), compared with the Path annotations of the tree that was restored.
package c07

import (
	"bytes"
	"fmt"
	"go/ast"
	"go/parser"
	"go/token"
	"go/types"
	"sort"
	"strconv"
	"strings"
	"testing"

	"github.com/dave/dst"
	"github.com/dave/dst/decorator"
	"github.com/dave/dst/decorator/resolver"
	"github.com/dave/dst/decorator/resolver/gotypes"
	"github.com/dave/dst/decorator/resolver/guess"
	"github.com/dave/dst/decorator/resolver/simple"
	"pgregory.net/rapid"

	"verif/internal/gen"
	"verif/internal/h"
	"verif/internal/known"
)

func TestMain(m *testing.M) { h.Main(m, "C07") }

type Case struct {
	Libs        []gen.Lib         `json:"libs"`
	Root        map[string]string `json:"root"`
	Target      string            `json:"target"`
	Donor       string            `json:"donor,omitempty"` // file whose declarations are cloned into the target
	DropImports bool              `json:"drop_imports"`    // remove every import declaration from the target tree
	DropSpec    int               `json:"drop_spec"`       // remove the n-th import spec (-1: none)
	RemoveUses  int               `json:"remove_uses"`     // delete the declarations that use library n (-1: none)
	Alias       map[string]string `json:"alias"`           // FileRestorer.Alias overrides
	RestRes     int               `json:"rest_resolver"`
}

const rootPath = "example.com/root"

type ref struct{ Name, Path string }

func names(libs []gen.Lib) map[string]string {
	m := map[string]string{rootPath: "root", "example.com/other": "other"}
	for _, l := range libs {
		m[l.ImportPath] = l.Name
		m[l.FullPath] = l.Name
	}
	return m
}

type specInfo struct{ Path, Alias string }

func treeSpecs(f *dst.File) (out []specInfo) {
	dst.Inspect(f, func(n dst.Node) bool {
		if is, ok := n.(*dst.ImportSpec); ok {
			p, _ := strconv.Unquote(is.Path.Value)
			a := ""
			if is.Name != nil {
				a = is.Name.Name
			}
			out = append(out, specInfo{p, a})
		}
		return true
	})
	return
}

// build decorates the program, edits the target tree and restores it. It returns the printed
// bytes, the references the tree carried, and the import specs the edited tree had.
func build(t h.TB, sub string, c Case) (out []byte, want []ref, specs []specInfo, err error) {
	p := &gen.Prog{Libs: c.Libs, Names: names(c.Libs)}
	imp, err := p.Importer()
	if err != nil {
		t.Fatalf("harness: %v", err)
	}
	ck, err := p.CheckSources(imp, rootPath, c.Root)
	if err != nil {
		t.Fatalf("harness: root does not type-check: %v", err)
	}
	dec := decorator.NewDecoratorWithImports(ck.Fset, rootPath, gotypes.New(ck.Info.Uses))
	files := map[string]*dst.File{}
	var fn []string
	for n := range c.Root {
		fn = append(fn, n)
	}
	sort.Strings(fn)
	for _, n := range fn {
		var df *dst.File
		var derr error
		h.Guard(t, sub, c, func() { df, derr = dec.DecorateFile(ck.Files[n]) })
		if derr != nil {
			h.Fail(t, sub, c, "DecorateFile(%s): %v", n, derr)
		}
		files[n] = df
	}
	tf := files[c.Target]
	// --- edits ---
	if c.Donor != "" && files[c.Donor] != nil {
		for _, d := range files[c.Donor].Decls {
			if gd, ok := d.(*dst.GenDecl); ok && gd.Tok == token.IMPORT {
				continue
			}
			tf.Decls = append(tf.Decls, dst.Clone(d).(dst.Decl))
		}
	}
	if c.RemoveUses >= 0 && c.RemoveUses < len(c.Libs) {
		path := c.Libs[c.RemoveUses].ImportPath
		var keep []dst.Decl
		for _, d := range tf.Decls {
			uses := false
			dst.Inspect(d, func(n dst.Node) bool {
				if id, ok := n.(*dst.Ident); ok && id.Path == path {
					uses = true
				}
				return true
			})
			if !uses {
				keep = append(keep, d)
			}
		}
		tf.Decls = keep
	}
	if c.DropImports {
		var keep []dst.Decl
		for _, d := range tf.Decls {
			if gd, ok := d.(*dst.GenDecl); ok && gd.Tok == token.IMPORT {
				continue
			}
			keep = append(keep, d)
		}
		tf.Decls = keep
	} else if c.DropSpec >= 0 {
		k := 0
		var keep []dst.Decl
		for _, d := range tf.Decls {
			gd, ok := d.(*dst.GenDecl)
			if !ok || gd.Tok != token.IMPORT {
				keep = append(keep, d)
				continue
			}
			var sp []dst.Spec
			for _, s := range gd.Specs {
				if k != c.DropSpec {
					sp = append(sp, s)
				}
				k++
			}
			gd.Specs = sp
			if len(sp) == 1 {
				gd.Lparen, gd.Rparen = false, false
			}
			if len(sp) > 0 {
				keep = append(keep, d)
			}
		}
		tf.Decls = keep
	}
	// --- what the tree says ---
	dst.Inspect(tf, func(n dst.Node) bool {
		if id, ok := n.(*dst.Ident); ok && id.Path != "" && id.Path != rootPath {
			want = append(want, ref{id.Name, id.Path})
		}
		return true
	})
	specs = treeSpecs(tf)
	var rr resolver.RestorerResolver = simple.New(p.Names)
	if c.RestRes == 1 {
		rr = guess.WithMap(p.Names)
	}
	fr := decorator.NewRestorerWithImports(rootPath, rr).FileRestorer()
	for k, v := range c.Alias {
		fr.Alias[k] = v
	}
	var buf bytes.Buffer
	h.Guard(t, sub, c, func() { err = fr.Fprint(&buf, tf) })
	return buf.Bytes(), want, specs, err
}

func check(t h.TB, c Case) {
	const sub = "Restore"
	out, want, treeSp, err := build(t, sub, c)
	if err != nil {
		h.Fail(t, sub, c, "import-managed restore failed: %v", err)
	}
	// determinism: the same tree built again gives identical bytes
	for i := 0; i < 2; i++ {
		out2, _, _, err2 := build(t, sub, c)
		if err2 != nil || !bytes.Equal(out, out2) {
			h.Fail(t, sub, c, "two restores of equal trees differ (err %v)\n--- first ---\n%s\n--- second ---\n%s", err2, out, out2)
		}
	}
	p := &gen.Prog{Libs: c.Libs, Names: names(c.Libs)}
	imp, _ := p.Importer()
	ck, err := p.CheckSources(imp, rootPath, map[string]string{"out.go": string(out)})
	if err != nil {
		h.Fail(t, sub, c, "output does not type-check: %v\n--- output ---\n%s", err, out)
	}
	f := ck.Files["out.go"]
	// (1) every reference denotes the package its Path named, in order
	var got []ref
	ast.Inspect(f, func(n ast.Node) bool {
		id, ok := n.(*ast.Ident)
		if !ok {
			return true
		}
		obj := ck.Info.Uses[id]
		if obj == nil || obj.Pkg() == nil || obj.Pkg() == ck.Pkg {
			return true
		}
		if _, isPkg := obj.(*types.PkgName); isPkg {
			return true
		}
		if v, ok := obj.(*types.Var); ok && v.IsField() {
			return true
		}
		if obj.Parent() != obj.Pkg().Scope() {
			return true
		}
		got = append(got, ref{id.Name, gen.StripVendor(obj.Pkg().Path())})
		return true
	})
	if fmt.Sprint(got) != fmt.Sprint(want) {
		for i := range want {
			if i >= len(got) || got[i] != want[i] {
				h.Fail(t, sub, c, "reference %d: the tree says %v, in the output it denotes %v\n--- output ---\n%s", i, want[i], at(got, i), out)
			}
		}
		h.Fail(t, sub, c, "the tree carries %d remote references, the output has %d\n--- output ---\n%s", len(want), len(got), out)
	}
	// (2) imports: each used path exactly once, plus blank and cgo imports, nothing else
	used := map[string]bool{}
	for _, r := range want {
		used[r.Path] = true
	}
	srcAlias := map[string]string{}
	for _, s := range treeSp {
		srcAlias[s.Path] = s.Alias
	}
	expectSet := map[string]bool{}
	for p := range used {
		expectSet[p] = true
	}
	for _, s := range treeSp {
		if s.Path == "C" {
			expectSet["C"] = true
		}
		if s.Alias == "_" && !used[s.Path] {
			if ov, ok := c.Alias[s.Path]; !ok || ov == "_" {
				expectSet[s.Path] = true
			}
		}
	}
	for p, a := range c.Alias {
		if a == "_" && !used[p] {
			expectSet[p] = true
		}
	}
	seen := map[string]int{}
	local := map[string]string{}
	var outOrder []string
	for _, is := range f.Imports {
		p, _ := strconv.Unquote(is.Path.Value)
		seen[p]++
		outOrder = append(outOrder, p)
		name := c2name(is, names(c.Libs)[p])
		local[p] = name
	}
	for p, n := range seen {
		if n != 1 {
			h.Fail(t, sub, c, "path %q imported %d times\n%s", p, n, out)
		}
		if !expectSet[p] {
			h.Fail(t, sub, c, "output imports %q although nothing references it and it is not a blank / cgo import\n%s", p, out)
		}
	}
	for p := range expectSet {
		if seen[p] == 0 {
			h.Fail(t, sub, c, "path %q is referenced (or blank-imported) but not imported in the output\n%s", p, out)
		}
	}
	// (3) names bound by ordinary imports are pairwise distinct
	byName := map[string]string{}
	for p, n := range local {
		if n == "_" || n == "." {
			continue
		}
		if q, dup := byName[n]; dup {
			h.Fail(t, sub, c, "imports %q and %q are both bound to the name %s\n%s", p, q, n, out)
		}
		byName[n] = p
	}
	// (4) precedence: override > source alias > resolved name, whenever the requested names do not collide
	requested := map[string]string{}
	for p := range used {
		req := names(c.Libs)[p]
		if a, ok := srcAlias[p]; ok && a != "" && a != "_" {
			req = a
		}
		if ov, ok := c.Alias[p]; ok {
			switch ov {
			case "":
				req = names(c.Libs)[p]
			case "_":
			default:
				req = ov
			}
		}
		requested[p] = req
	}
	cnt := map[string]int{}
	for _, r := range requested {
		if r != "." {
			cnt[r]++
		}
	}
	collide := false
	for _, n := range cnt {
		if n > 1 {
			collide = true
		}
	}
	if !collide {
		for p, req := range requested {
			if local[p] != req {
				h.Fail(t, sub, c, "import %q is bound to %q, requested %q (override %q, source alias %q, package name %q)\n%s", p, local[p], req, c.Alias[p], srcAlias[p], names(c.Libs)[p], out)
			}
		}
	} else {
		h.Label("requested-names-collide")
	}
	// (5) blocks that need no addition keep their order
	added := false
	for p := range seen {
		if _, ok := srcAlias[p]; !ok {
			added = true
		}
	}
	if !added {
		var srcOrder []string
		for _, s := range treeSp {
			if seen[s.Path] > 0 {
				srcOrder = append(srcOrder, s.Path)
			}
		}
		if fmt.Sprint(srcOrder) != fmt.Sprint(outOrder) {
			h.Fail(t, sub, c, "no import had to be added, but the surviving specs changed order: %v -> %v\n%s", srcOrder, outOrder, out)
		}
	} else {
		h.Label("import-added")
	}
}

func c2name(is *ast.ImportSpec, pkgName string) string {
	if is.Name != nil {
		return is.Name.Name
	}
	return pkgName
}

func at(r []ref, i int) interface{} {
	if i < len(r) {
		return r[i]
	}
	return "<nothing>"
}

func genCase(t *rapid.T) (Case, bool) {
	const sub = "Restore"
	p := gen.GenProg(t, 1, 2)
	c := Case{Libs: p.Libs, Root: p.RootSources(rootPath), DropSpec: -1, RemoveUses: -1, Alias: map[string]string{}, RestRes: rapid.IntRange(0, 1).Draw(t, "rest")}
	var fn []string
	for n := range c.Root {
		fn = append(fn, n)
	}
	sort.Strings(fn)
	if rapid.IntRange(0, 4).Draw(t, "rawpaths") == 0 {
		// import paths written as raw strings (legal Go; gofmt keeps them)
		for _, n := range fn {
			for _, l := range p.Libs {
				if rapid.Bool().Draw(t, "raw") {
					c.Root[n] = strings.Replace(c.Root[n], "\""+l.ImportPath+"\"", "`"+l.ImportPath+"`", 1)
				}
			}
		}
		h.Label("raw-string-import-paths")
	}
	c.Target = fn[rapid.IntRange(0, len(fn)-1).Draw(t, "target")]
	if len(fn) > 1 && rapid.Bool().Draw(t, "donor") {
		for _, n := range fn {
			if n != c.Target {
				c.Donor = n
			}
		}
		h.Label("edit:clone-from-other-file")
	}
	switch rapid.IntRange(0, 3).Draw(t, "drop") {
	case 0:
		c.DropImports = true
		h.Label("edit:drop-all-imports")
	case 1:
		c.DropSpec = rapid.IntRange(0, 4).Draw(t, "spec")
		h.Label("edit:drop-one-spec")
	}
	if rapid.IntRange(0, 2).Draw(t, "remove") == 0 {
		c.RemoveUses = rapid.IntRange(0, len(p.Libs)-1).Draw(t, "lib")
		h.Label("edit:remove-uses")
	}
	na := rapid.IntRange(0, 2).Draw(t, "nalias")
	for i := 0; i < na; i++ {
		l := p.Libs[rapid.IntRange(0, len(p.Libs)-1).Draw(t, "aliaslib")]
		a := []string{"", "_", ".", "zz", "beta", "util", l.Name, "al0", "yy"}[rapid.IntRange(0, 8).Draw(t, "aliasval")]
		if a == "." {
			// a second dot-import could make two packages' members collide only if names overlap; they do not
			h.Label("override:dot")
		}
		c.Alias[l.ImportPath] = a
		h.Label("override")
	}
	collision := false
	nameCount := map[string]int{}
	for _, l := range p.Libs {
		nameCount[l.Name]++
		if nameCount[l.Name] > 1 {
			collision = true
		}
	}
	special := false
	for _, f := range p.Files {
		for _, im := range f.Imports {
			if im.Alias == "." || im.Alias == "_" {
				special = true
			}
		}
	}
	if len(p.Libs) >= 2 && (collision || len(c.Alias) > 0 || special) {
		var key []string
		for n, s := range c.Root {
			key = append(key, n+s)
		}
		sort.Strings(key)
		h.NonTrivial(sub, strings.Join(key, "\x00"), fmt.Sprint(c.Target, c.Donor, c.DropImports, c.DropSpec, c.RemoveUses, c.Alias, c.RestRes))
	}
	h.Sample(sub, map[string]any{"target": h.Trunc(c.Root[c.Target], 400), "donor": c.Donor, "drop_imports": c.DropImports, "drop_spec": c.DropSpec, "remove_uses": c.RemoveUses, "alias": c.Alias})
	return c, true
}

var prop = h.Prop("Restore", genCase, check)

func TestPropRestore(t *testing.T) { rapid.Check(t, prop) }

func TestReplay(t *testing.T) {
	known.RunRegressions(t, "C07")
	TestReplayCgoGrouped(t)
	// cgo: the "C" import is never removed and a new block goes below a leading cgo block
	for i, src := range []string{
		"package root\n\n// #include <stdio.h>\nimport \"C\"\n\nfunc f() {\n\t_ = C.x\n}\n",
		"package root\n\nimport (\n\t\"C\"\n\t\"os\"\n)\n\nfunc f() {\n\t_ = C.x\n\t_ = os.Args\n}\n",
	} {
		h.Eval("Cgo")
		fset := token.NewFileSet()
		af, err := parser.ParseFile(fset, "a.go", src, parser.ParseComments)
		if err != nil {
			t.Fatal(err)
		}
		df, err := decorator.NewDecoratorWithImports(fset, "root", nilResolver{}).DecorateFile(af)
		if err != nil {
			t.Fatal(err)
		}
		// add a reference to a package that is not imported yet
		fd := df.Decls[len(df.Decls)-1].(*dst.FuncDecl)
		fd.Body.List = append(fd.Body.List, &dst.ExprStmt{X: &dst.CallExpr{Fun: &dst.Ident{Name: "Println", Path: "fmt"}}})
		var buf bytes.Buffer
		if err := decorator.NewRestorerWithImports("root", guess.New()).Fprint(&buf, df); err != nil {
			h.Fail(t, "Cgo", src, "restore: %v", err)
		}
		of, err := parser.ParseFile(token.NewFileSet(), "", buf.Bytes(), parser.ParseComments)
		if err != nil {
			h.Fail(t, "Cgo", src, "output does not parse: %v\n%s", err, buf.String())
		}
		paths := map[string]int{}
		for _, is := range of.Imports {
			p, _ := strconv.Unquote(is.Path.Value)
			paths[p]++
		}
		if paths["C"] != 1 || paths["fmt"] != 1 {
			h.Fail(t, "Cgo", src, "case %d: imports after adding fmt: %v\n%s", i, paths, buf.String())
		}
		if i == 0 {
			if p, _ := strconv.Unquote(of.Imports[0].Path.Value); p != "C" {
				h.Fail(t, "Cgo", src, "the new import block was placed above the leading cgo block\n%s", buf.String())
			}
			if !strings.Contains(buf.String(), "// #include <stdio.h>\nimport \"C\"") {
				h.Fail(t, "Cgo", src, "the cgo preamble no longer abuts import \"C\"\n%s", buf.String())
			}
		}
		h.NonTrivial("Cgo", src)
	}
}

// cgoGrouped: "C" first in a parenthesised block together with ordinary imports; the other specs
// of that block must still be maintained (dropped when unused, renamed on request).
func TestReplayCgoGrouped(t *testing.T) {
	const sub = "CgoGrouped"
	src := "package root\n\nimport (\n\t\"C\"\n\t\"fmt\"\n\t\"os\"\n)\n\nfunc f() {\n\t_ = C.x\n\tfmt.Println()\n}\n\nfunc g() {\n\t_ = os.Args\n}\n"
	type sc struct {
		name    string
		dropG   bool
		alias   map[string]string
		want    map[string]string // path -> local name ("" = no alias)
		wantNot []string
	}
	for _, c := range []sc{
		{"noop", false, nil, map[string]string{"C": "", "fmt": "", "os": ""}, nil},
		{"os-becomes-unused", true, nil, map[string]string{"C": "", "fmt": ""}, []string{"os"}},
		{"alias-requested", false, map[string]string{"fmt": "f"}, map[string]string{"C": "", "fmt": "f", "os": ""}, nil},
	} {
		h.Eval(sub)
		fset := token.NewFileSet()
		af, err := parser.ParseFile(fset, "a.go", src, parser.ParseComments)
		if err != nil {
			t.Fatal(err)
		}
		df, err := decorator.NewDecoratorWithImports(fset, "root", pkgResolver{"fmt": "fmt", "os": "os"}).DecorateFile(af)
		if err != nil {
			t.Fatal(err)
		}
		if c.dropG {
			df.Decls = df.Decls[:len(df.Decls)-1]
		}
		fr := decorator.NewRestorerWithImports("root", guess.New()).FileRestorer()
		for k, v := range c.alias {
			fr.Alias[k] = v
		}
		var buf bytes.Buffer
		if err := fr.Fprint(&buf, df); err != nil {
			h.Fail(t, sub, c.name, "restore: %v", err)
		}
		of, err := parser.ParseFile(token.NewFileSet(), "", buf.Bytes(), parser.ParseComments)
		if err != nil {
			h.Fail(t, sub, c.name, "output does not parse: %v\n%s", err, buf.String())
		}
		got := map[string]string{}
		for _, is := range of.Imports {
			p, _ := strconv.Unquote(is.Path.Value)
			if _, dup := got[p]; dup {
				h.Fail(t, sub, c.name, "%q imported twice\n%s", p, buf.String())
			}
			got[p] = ""
			if is.Name != nil {
				got[p] = is.Name.Name
			}
		}
		if fmt.Sprint(got) != fmt.Sprint(c.want) {
			h.Fail(t, sub, c.name, "scenario %s: imports are %v, want %v\n%s", c.name, got, c.want, buf.String())
		}
		if c.alias["fmt"] == "f" && !strings.Contains(buf.String(), "f.Println()") {
			h.Fail(t, sub, c.name, "reference not rewritten to the requested alias\n%s", buf.String())
		}
		h.NonTrivial(sub, c.name)
	}
}

// pkgResolver resolves selectors on the given package names (syntax only, for cgo files).
type pkgResolver map[string]string

func (r pkgResolver) ResolveIdent(file *ast.File, parent ast.Node, parentField string, id *ast.Ident) (string, error) {
	if se, ok := parent.(*ast.SelectorExpr); ok && parentField == "Sel" {
		if x, ok := se.X.(*ast.Ident); ok {
			return r[x.Name], nil
		}
	}
	return "", nil
}

// nilResolver resolves nothing (the cgo files are not type-checked).
type nilResolver struct{}

func (nilResolver) ResolveIdent(file *ast.File, parent ast.Node, parentField string, id *ast.Ident) (string, error) {
	if se, ok := parent.(*ast.SelectorExpr); ok && parentField == "Sel" {
		if x, ok := se.X.(*ast.Ident); ok && x.Name == "os" {
			return "os", nil
		}
	}
	return "", nil
}

func TestReplayFile(t *testing.T) { h.TestReplayEnv(t) }
