package c16

import (
	"bytes"
	"fmt"
	"go/ast"
	"go/format"
	"go/parser"
	"go/token"
	"sort"
	"strings"
	"testing"

	"github.com/dave/dst"
	"github.com/dave/dst/decorator"
	"pgregory.net/rapid"

	"verif/internal/dsth"
	"verif/internal/gen"
	"verif/internal/h"
)

// RepeatCase: several files of one package, handled together (one *ast.Package through one
// Decorator; one FileRestorer for all files) and each alone. The together-results must equal the
// alone-results at every repetition: Go randomises the iteration order of the package's file map
// per loop, so state leaking from one file to the next shows up as a difference.
type RepeatCase struct {
	Files map[string]string `json:"files"`
	Reps  int               `json:"reps"`
}

func checkRepeat(t h.TB, c RepeatCase) {
	const sub = "Repeat"
	var fn []string
	for n := range c.Files {
		fn = append(fn, n)
	}
	sort.Strings(fn)
	type one struct{ dump, bytes string }
	alone := map[string]one{}
	for _, n := range fn {
		var o one
		var err error
		h.Guard(t, sub, c, func() {
			fset := token.NewFileSet()
			var af *ast.File
			af, err = parser.ParseFile(fset, n, c.Files[n], parser.ParseComments)
			if err != nil {
				return
			}
			var df *dst.File
			df, err = decorator.NewDecorator(fset).DecorateFile(af)
			if err != nil {
				return
			}
			o.dump = dsth.Dump(df, dsth.DumpOpts{})
			var buf bytes.Buffer
			err = decorator.NewRestorer().Fprint(&buf, df)
			o.bytes = buf.String()
		})
		if err != nil {
			// e.g. go/printer strips the parentheses of "for range (G[int]{}) {" and format.Node rejects its own output
			h.Exclude("file does not round-trip alone (judged by C01/C15, not here)")
			return
		}
		alone[n] = o
	}
	for rep := 0; rep < c.Reps; rep++ {
		fset := token.NewFileSet()
		pkg := &ast.Package{Name: "p", Files: map[string]*ast.File{}}
		for _, n := range fn {
			af, err := parser.ParseFile(fset, n, c.Files[n], parser.ParseComments)
			if err != nil {
				t.Fatalf("harness: %v", err)
			}
			pkg.Files[n] = af
		}
		var node dst.Node
		var err error
		h.Guard(t, sub, c, func() { node, err = decorator.NewDecorator(fset).DecorateNode(pkg) })
		if err != nil {
			h.Fail(t, sub, c, "DecorateNode(*ast.Package): %v", err)
		}
		dpkg := node.(*dst.Package)
		for _, n := range fn {
			if got := dsth.Dump(dpkg.Files[n], dsth.DumpOpts{}); got != alone[n].dump {
				h.Fail(t, sub, c, "repetition %d: file %s decorated as part of a package differs from the same file decorated alone: %s", rep, n, diff(result{dump: alone[n].dump}, result{dump: got}))
			}
		}
		// one FileRestorer for all files; the earlier results are used after the later calls
		fr := decorator.NewRestorer().FileRestorer()
		order := append([]string(nil), fn...)
		if rep%2 == 1 {
			sort.Sort(sort.Reverse(sort.StringSlice(order)))
		}
		restored := map[string]*ast.File{}
		for _, n := range order {
			fr.Name = n
			var af *ast.File
			h.Guard(t, sub, c, func() { af, err = fr.RestoreFile(dpkg.Files[n]) })
			if err != nil {
				h.Fail(t, sub, c, "RestoreFile(%s) on a reused FileRestorer: %v", n, err)
			}
			restored[n] = af
		}
		for _, n := range order {
			var buf bytes.Buffer
			if err := format.Node(&buf, fr.Fset, restored[n]); err != nil {
				h.Fail(t, sub, c, "printing %s restored by a reused FileRestorer: %v", n, err)
			}
			if buf.String() != alone[n].bytes {
				h.Fail(t, sub, c, "repetition %d: file %s restored by a FileRestorer that went on to restore other files prints differently from the same file restored alone: %s", rep, n, diff(result{bytes: alone[n].bytes}, result{bytes: buf.String()}))
			}
		}
	}
}

func genRepeat(t *rapid.T) (RepeatCase, bool) {
	const sub = "Repeat"
	c := RepeatCase{Files: map[string]string{}, Reps: 6}
	n := rapid.IntRange(2, 4).Draw(t, "nfiles")
	multi := 0
	for i := 0; i < n; i++ {
		raw, _ := gen.SynFile(t, rapid.IntRange(10, 80).Draw(t, "size"))
		inj, kinds := gen.Inject(t, []byte(raw), gen.LayoutOpts{Max: 8})
		for _, k := range kinds {
			if k == "block-multiline" {
				multi++
			}
		}
		if strings.Contains(raw, "`a\nb`") || strings.Contains(raw, "`\n\tx") || strings.Contains(raw, "`line1\n") {
			multi++
		}
		c.Files[fmt.Sprintf("f%d.go", i)] = string(inj)
	}
	if multi > 0 {
		h.Label("repeat:multi-line-comment-or-string")
		var key []string
		for k, v := range c.Files {
			key = append(key, k+v)
		}
		sort.Strings(key)
		h.NonTrivial(sub, key...)
	}
	h.Sample(sub, map[string]any{"files": n, "multiline": multi})
	return c, true
}

var propRepeat = h.Prop("Repeat", genRepeat, checkRepeat)

func TestPropRepeat(t *testing.T) { rapid.Check(t, propRepeat) }
