// C16 — concurrent use of separate decorators/restorers is race-free and deterministic.
// Built with -race. Oracle: the result of the same call made alone; the race detector.
package c16

import (
	"bytes"
	"fmt"
	"go/build"
	"go/parser"
	"go/token"
	"runtime"
	"sort"
	"strings"
	"sync"
	"testing"

	"github.com/dave/dst"
	"github.com/dave/dst/decorator"
	"github.com/dave/dst/decorator/resolver"
	"github.com/dave/dst/decorator/resolver/goast"
	"github.com/dave/dst/decorator/resolver/gobuild"
	"github.com/dave/dst/decorator/resolver/guess"
	"github.com/dave/dst/decorator/resolver/simple"
	"pgregory.net/rapid"

	"verif/internal/dsth"
	"verif/internal/gen"
	"verif/internal/h"
	"verif/internal/known"
)

func TestMain(m *testing.M) { h.Main(m, "C16") }

type Case struct {
	Libs       []gen.Lib         `json:"libs"`
	Files      map[string]string `json:"files"`
	Goroutines int               `json:"goroutines"`
	Rounds     int               `json:"rounds"`
	Procs      int               `json:"gomaxprocs"` // of the process that generated the case (set per shard by the driver); informational
	Shared     int               `json:"shared"`     // 0: own resolvers; 1: one shared goast.New(); 2: one shared goast.WithResolver(simple map); 3: as 2, and one shared gobuild resolver (Hints + FindPackage hook) for restoring; all share the read-only restorer maps
	Yields     []int             `json:"yields"`     // Gosched padding pattern
}

const rootPath = "example.com/root"

func names(libs []gen.Lib) map[string]string {
	m := map[string]string{rootPath: "root"}
	for _, l := range libs {
		m[l.ImportPath] = l.Name
		m[l.FullPath] = l.Name
	}
	return m
}

type result struct {
	err   string
	dump  string
	bytes string
}

// roundTrip decorates src with the given identifier resolver and restores it with rr.
func roundTrip(src string, dr resolver.DecoratorResolver, rr resolver.RestorerResolver) (res result) {
	defer func() {
		if r := recover(); r != nil {
			res.err = fmt.Sprintf("panic: %v", r)
		}
	}()
	fset := token.NewFileSet()
	af, err := parser.ParseFile(fset, "x.go", src, parser.ParseComments)
	if err != nil {
		return result{err: "parse: " + err.Error()}
	}
	df, err := decorator.NewDecoratorWithImports(fset, rootPath, dr).DecorateFile(af)
	if err != nil {
		return result{err: "decorate: " + err.Error()}
	}
	res.dump = dsth.Dump(df, dsth.DumpOpts{})
	var buf bytes.Buffer
	if err := decorator.NewRestorerWithImports(rootPath, rr).Fprint(&buf, df); err != nil {
		return result{err: "restore: " + err.Error(), dump: res.dump}
	}
	res.bytes = buf.String()
	return res
}

func check(t h.TB, c Case) {
	const sub = "Concurrent"
	nm := names(c.Libs)
	var fn []string
	for n := range c.Files {
		fn = append(fn, n)
	}
	sort.Strings(fn)
	mkDR := func() resolver.DecoratorResolver {
		if c.Shared == 1 {
			return goast.New()
		}
		return goast.WithResolver(simple.New(nm))
	}
	var rr resolver.RestorerResolver = simple.New(nm)
	if c.Shared == 1 {
		rr = guess.WithMap(nm)
	}
	var hints, hintsBefore map[string]string
	if c.Shared == 3 {
		// one gobuild resolver for all goroutines: caller-owned Hints for half of the packages, the
		// documented FindPackage hook (safe for concurrent use) for the rest
		hints = map[string]string{}
		i := 0
		var paths []string
		for p := range nm {
			paths = append(paths, p)
		}
		sort.Strings(paths)
		for _, p := range paths {
			if i%2 == 0 {
				hints[p] = nm[p]
			}
			i++
		}
		hintsBefore = map[string]string{}
		for k, v := range hints {
			hintsBefore[k] = v
		}
		gb := gobuild.WithHints("/nowhere", hints)
		gb.FindPackage = func(ctxt *build.Context, importPath, fromDir string, mode build.ImportMode) (*build.Package, error) {
			if n, ok := nm[importPath]; ok {
				return &build.Package{Name: n}, nil
			}
			return nil, fmt.Errorf("package %s not in the generated universe", importPath)
		}
		rr = gb
	}
	// the same calls made alone, each with fresh resolvers; repeated to expose map-order dependence
	alone := map[string]result{}
	for _, n := range fn {
		alone[n] = roundTrip(c.Files[n], mkDR(), rr)
		for i := 0; i < 8; i++ {
			again := roundTrip(c.Files[n], mkDR(), rr)
			if again != alone[n] {
				h.Fail(t, sub, c, "repeating the round trip of %s on equal input gives another result (run %d): %s", n, i, diff(alone[n], again))
			}
		}
	}
	// (GOMAXPROCS is chosen per process by the driver: calling runtime.GOMAXPROCS for every case
	// crashed the Go runtime under the race detector on a loaded machine - SIGSEGV in startTheWorld)
	var sharedDR resolver.DecoratorResolver
	if c.Shared > 0 {
		sharedDR = mkDR()
	}
	var wg sync.WaitGroup
	var mu sync.Mutex
	var problems []string
	for g := 0; g < c.Goroutines; g++ {
		wg.Add(1)
		go func(g int) {
			defer wg.Done()
			for r := 0; r < c.Rounds; r++ {
				n := fn[(g+r)%len(fn)]
				dr := sharedDR
				if dr == nil {
					dr = mkDR()
				}
				if len(c.Yields) > 0 {
					for y := c.Yields[(g*7+r)%len(c.Yields)]; y > 0; y-- {
						runtime.Gosched()
					}
				}
				got := roundTrip(c.Files[n], dr, rr)
				if got != alone[n] {
					mu.Lock()
					problems = append(problems, fmt.Sprintf("goroutine %d round %d file %s: %s", g, r, n, diff(alone[n], got)))
					mu.Unlock()
					return
				}
			}
		}(g)
	}
	wg.Wait()
	if hints != nil && fmt.Sprint(hints) != fmt.Sprint(hintsBefore) {
		h.Fail(t, sub, c, "the shared, read-only Hints map of the gobuild resolver was modified: %d entries before, %d after", len(hintsBefore), len(hints))
	}
	if len(problems) > 0 {
		sort.Strings(problems)
		h.Fail(t, sub, c, "a concurrent call differs from the same call made alone (%d goroutines, shared resolver mode %d): %s", c.Goroutines, c.Shared, problems[0])
	}
}

func diff(a, b result) string {
	switch {
	case a.err != b.err:
		return fmt.Sprintf("error %q vs %q", a.err, b.err)
	case a.dump != b.dump:
		al, bl := strings.Split(a.dump, "\n"), strings.Split(b.dump, "\n")
		for i := 0; i < len(al) && i < len(bl); i++ {
			if al[i] != bl[i] {
				return fmt.Sprintf("tree differs at dump line %d: %q vs %q", i, al[i], bl[i])
			}
		}
		return "tree dumps differ in length"
	default:
		return fmt.Sprintf("bytes differ:\n%s\n--- vs ---\n%s", a.bytes, b.bytes)
	}
}

func genCase(t *rapid.T) (Case, bool) {
	const sub = "Concurrent"
	p := gen.GenProg(t, 1, 4)
	c := Case{Libs: p.Libs, Files: p.RootSources(rootPath), Goroutines: rapid.IntRange(2, 12).Draw(t, "goroutines"), Rounds: rapid.IntRange(2, 12).Draw(t, "rounds"),
		Procs: runtime.GOMAXPROCS(0), Shared: rapid.IntRange(0, 3).Draw(t, "shared")}
	for i, n := 0, rapid.IntRange(0, 6).Draw(t, "nyields"); i < n; i++ {
		c.Yields = append(c.Yields, rapid.IntRange(0, 3).Draw(t, "yield"))
	}
	h.Label(fmt.Sprintf("shared-mode=%d", c.Shared))
	if c.Goroutines >= 4 && c.Shared > 0 && len(c.Files) >= 2 {
		h.NonTrivial(sub, fmt.Sprint(c.Files), fmt.Sprint(c.Goroutines, c.Rounds, c.Procs, c.Shared, c.Yields))
	}
	h.Sample(sub, map[string]any{"files": len(c.Files), "goroutines": c.Goroutines, "rounds": c.Rounds, "gomaxprocs": c.Procs, "shared": c.Shared})
	return c, true
}

var prop = h.Prop("Concurrent", genCase, check)

func TestPropConcurrent(t *testing.T) { rapid.Check(t, prop) }

// TestReplay: the witness of the fixed race (one goast.New() shared by goroutines decorating
// different files), and plain (resolver-less) decorators / restorers in parallel on corpus files.
func TestReplay(t *testing.T) {
	known.RunRegressions(t, "C16")
	src := "package main\n\nimport \"fmt\"\n\nfunc main() {\n\tfmt.Println(\"x\")\n}\n"
	shared := goast.New()
	var wg sync.WaitGroup
	for i := 0; i < 16; i++ {
		wg.Add(1)
		go func() {
			defer wg.Done()
			roundTrip(src, shared, guess.New())
		}()
	}
	wg.Wait()
	h.Eval("SharedGoastNew")
	h.NonTrivial("SharedGoastNew", "witness")
	// repeated import-managed restores with competing alias requests (conflict resolution must
	// not depend on map iteration order)
	{
		src := "package root\n\nimport (\n\tyaml \"gopkg.in/yaml.v2\"\n\t\"lib/util\"\n)\n\nvar _ = yaml.Marshal\nvar _ = util.F\n"
		var first string
		for i := 0; i < 200; i++ {
			fset := token.NewFileSet()
			af, err := parser.ParseFile(fset, "a.go", src, parser.ParseComments)
			if err != nil {
				t.Fatal(err)
			}
			df, err := decorator.NewDecoratorWithImports(fset, rootPath, goast.New()).DecorateFile(af)
			if err != nil {
				t.Fatal(err)
			}
			// a second package is referenced and asked to be called yaml too; a third wants util's name
			decl := df.Decls[len(df.Decls)-1].(*dst.GenDecl)
			decl.Specs[0].(*dst.ValueSpec).Values = append(decl.Specs[0].(*dst.ValueSpec).Values, &dst.Ident{Name: "Unmarshal", Path: "gopkg.in/yaml.v3"}, &dst.Ident{Name: "G", Path: "example.com/z/util"})
			decl.Specs[0].(*dst.ValueSpec).Names = append(decl.Specs[0].(*dst.ValueSpec).Names, dst.NewIdent("_"), dst.NewIdent("_"))
			fr := decorator.NewRestorerWithImports(rootPath, guess.New()).FileRestorer()
			fr.Alias["gopkg.in/yaml.v3"] = "yaml"
			fr.Alias["example.com/z/util"] = "util"
			fr.Alias["lib/util"] = "util"
			var buf bytes.Buffer
			if err := fr.Fprint(&buf, df); err != nil {
				h.Fail(t, "AliasDeterminism", src, "restore: %v", err)
			}
			if i == 0 {
				first = buf.String()
			} else if buf.String() != first {
				h.Fail(t, "AliasDeterminism", src, "repeating an import-managed restore with competing alias requests gives different bytes (run %d):\n%s\n--- vs ---\n%s", i, first, buf.String())
			}
		}
		h.Eval("AliasDeterminism")
		h.NonTrivial("AliasDeterminism", "competing-aliases")
	}
	files := gen.CorpusSmall()
	var pick [][]byte
	for i := 0; i < len(files) && len(pick) < 40; i += 37 {
		b := gen.ReadCorpus(files[i])
		if _, err := decorator.Parse(b); err == nil {
			pick = append(pick, b)
		}
	}
	want := make([]string, len(pick))
	for i, b := range pick {
		f, _ := decorator.Parse(b)
		var buf bytes.Buffer
		decorator.Fprint(&buf, f)
		want[i] = buf.String()
	}
	var bad []string
	var mu sync.Mutex
	for g := 0; g < 16; g++ {
		wg.Add(1)
		go func(g int) {
			defer wg.Done()
			for i := range pick {
				j := (i + g) % len(pick)
				f, err := decorator.Parse(pick[j])
				var buf bytes.Buffer
				if err == nil {
					err = decorator.Fprint(&buf, f)
				}
				if err != nil || buf.String() != want[j] {
					mu.Lock()
					bad = append(bad, fmt.Sprintf("corpus file %d in goroutine %d", j, g))
					mu.Unlock()
				}
				_ = dst.None
			}
		}(g)
	}
	wg.Wait()
	h.Eval("PlainParallel")
	h.NonTrivial("PlainParallel", "corpus")
	if len(bad) > 0 {
		h.Fail(t, "PlainParallel", bad, "plain decorate/print in parallel differs from the sequential result: %s", bad[0])
	}
}

func TestReplayFile(t *testing.T) { h.TestReplayEnv(t) }
