// C10 — moving code between files or packages preserves what it refers to.
// Oracle: go/types on the result: every identifier of the moved code denotes the same
// (package path, object name) as before the move.
package c10

import (
	"bytes"
	"fmt"
	"go/ast"
	"go/token"
	"go/types"
	"regexp"
	"sort"
	"strings"
	"testing"

	"github.com/dave/dst"
	"github.com/dave/dst/decorator"
	"github.com/dave/dst/decorator/resolver"
	"github.com/dave/dst/decorator/resolver/goast"
	"github.com/dave/dst/decorator/resolver/gotypes"
	"github.com/dave/dst/decorator/resolver/guess"
	"github.com/dave/dst/decorator/resolver/simple"
	"pgregory.net/rapid"

	"verif/internal/gen"
	"verif/internal/h"
	"verif/internal/known"
)

func TestMain(m *testing.M) { h.Main(m, "C10") }

// Move takes declaration Decl (index among the non-import declarations) of file From and puts
// it into file To; Stmt >= 0 moves only that statement of the function's body into the body of
// the first function of To.
type Move struct {
	From string `json:"from"`
	Decl int    `json:"decl"`
	To   string `json:"to"`
	Stmt int    `json:"stmt"`
	Copy bool   `json:"copy"` // dst.Clone instead of cut
}

type Case struct {
	Libs    []gen.Lib                    `json:"libs"`
	Pkgs    map[string]map[string]string `json:"pkgs"` // package path -> file name -> source
	Moves   []Move                       `json:"moves"`
	RestRes int                          `json:"rest_resolver"`
	DecRes  int                          `json:"dec_resolver,omitempty"` // 0: gotypes; 1: the syntax-based goast resolver (accurate names) for files without dot-imports
}

var pkgName = map[string]string{"example.com/root": "root", "example.com/other": "other"}

func names(libs []gen.Lib) map[string]string {
	m := map[string]string{"example.com/root": "root", "example.com/other": "other"}
	for _, l := range libs {
		m[l.ImportPath] = l.Name
		m[l.FullPath] = l.Name
	}
	return m
}

type denot struct{ Name, Pkg string }

// denotations lists, in source order, what every identifier inside the node range [from,to]
// denotes, for identifiers that refer to package-level objects of other packages.
func denotations(ck *gen.Checked, n ast.Node) []denot {
	var out []denot
	ast.Inspect(n, func(x ast.Node) bool {
		if st, ok := x.(ast.Stmt); ok && x != n && astTag(st) != "" {
			return false // movable statements are judged one by one
		}
		id, ok := x.(*ast.Ident)
		if !ok {
			return true
		}
		obj := ck.Info.Uses[id]
		if obj == nil || obj.Pkg() == nil || obj.Pkg() == ck.Pkg {
			return true
		}
		if _, isPkg := obj.(*types.PkgName); isPkg {
			return true
		}
		if v, ok := obj.(*types.Var); ok && v.IsField() {
			return true
		}
		if obj.Parent() != obj.Pkg().Scope() {
			return true
		}
		out = append(out, denot{id.Name, gen.StripVendor(obj.Pkg().Path())})
		return true
	})
	return out
}

var tagRE = regexp.MustCompile(`^"tag[0-9]+_[0-9]+"$`)

// astTag returns the tag literal of a movable statement ("" if it has none of its own).
func astTag(st ast.Stmt) string {
	if _, isBlock := st.(*ast.BlockStmt); isBlock {
		return ""
	}
	tag := ""
	ast.Inspect(st, func(x ast.Node) bool {
		if bl, ok := x.(*ast.BasicLit); ok && tag == "" && tagRE.MatchString(bl.Value) {
			tag = bl.Value
		}
		return tag == ""
	})
	return tag
}

func dstTag(st dst.Stmt) string {
	if _, isBlock := st.(*dst.BlockStmt); isBlock {
		return ""
	}
	tag := ""
	dst.Inspect(st, func(x dst.Node) bool {
		if bl, ok := x.(*dst.BasicLit); ok && tag == "" && tagRE.MatchString(bl.Value) {
			tag = bl.Value
		}
		return tag == ""
	})
	return tag
}

// taggedStmts lists the top-level statements of function bodies that carry a tag.
func taggedStmts(f *ast.File) map[string][]ast.Stmt {
	out := map[string][]ast.Stmt{}
	for _, d := range f.Decls {
		if fd, ok := d.(*ast.FuncDecl); ok && fd.Body != nil {
			for _, st := range fd.Body.List {
				if tg := astTag(st); tg != "" {
					out[tg] = append(out[tg], st)
				}
			}
		}
	}
	return out
}

func declName(d ast.Decl) string {
	switch d := d.(type) {
	case *ast.FuncDecl:
		return d.Name.Name
	case *ast.GenDecl:
		switch s := d.Specs[0].(type) {
		case *ast.TypeSpec:
			return s.Name.Name
		case *ast.ValueSpec:
			return s.Names[0].Name
		}
	}
	return ""
}

func check(t h.TB, c Case) {
	const sub = "Move"
	p := &gen.Prog{Libs: c.Libs, Names: names(c.Libs)}
	imp, err := p.Importer()
	if err != nil {
		t.Fatalf("harness: %v", err)
	}
	// decorate every package with the types-based resolver
	trees := map[string]*dst.File{}    // file name -> tree
	filePkg := map[string]string{}     // file name -> package path
	before := map[string][]denot{}     // top-level declaration name -> what its identifiers denote
	beforeStmt := map[string][]denot{} // tag of a movable statement -> what its identifiers denote
	var fnames []string
	needsLocal := map[dst.Node]bool{}
	for path, files := range c.Pkgs {
		ck, err := p.CheckSources(imp, path, files)
		if err != nil {
			t.Fatalf("harness: %s does not type-check: %v", path, err)
		}
		dec := decorator.NewDecoratorWithImports(ck.Fset, path, gotypes.New(ck.Info.Uses))
		hasMethods := map[string]bool{}
		for _, af := range ck.Files {
			for _, d := range af.Decls {
				if fd, ok := d.(*ast.FuncDecl); ok && fd.Recv != nil && len(fd.Recv.List) > 0 {
					ty := fd.Recv.List[0].Type
					if st, ok := ty.(*ast.StarExpr); ok {
						ty = st.X
					}
					if id, ok := ty.(*ast.Ident); ok {
						hasMethods[id.Name] = true
					}
				}
			}
		}
		tdec := dec
		for fn, af := range ck.Files {
			var df *dst.File
			dec := tdec
			if c.DecRes == 1 {
				dot := false
				for _, is := range af.Imports {
					dot = dot || (is.Name != nil && is.Name.Name == ".")
				}
				if !dot {
					dec = decorator.NewDecoratorWithImports(ck.Fset, path, goast.WithResolver(simple.New(p.Names)))
				}
			}
			h.Guard(t, sub, c, func() { df, err = dec.DecorateFile(af) })
			if err != nil {
				h.Fail(t, sub, c, "DecorateFile(%s): %v", fn, err)
			}
			trees[fn], filePkg[fn] = df, path
			fnames = append(fnames, fn)
			for tg, sts := range taggedStmts(af) {
				beforeStmt[tg] = denotations(ck, sts[0])
			}
			for _, d := range af.Decls {
				if gd, ok := d.(*ast.GenDecl); ok && gd.Tok == token.IMPORT {
					continue
				}
				before[declName(d)] = denotations(ck, d)
				// does the declaration refer to package-level objects of its own package (other
				// than itself)? Then it can only move inside the package.
				ast.Inspect(d, func(x ast.Node) bool {
					if id, ok := x.(*ast.Ident); ok {
						if obj := ck.Info.Uses[id]; obj != nil && obj.Pkg() == ck.Pkg && obj.Parent() == ck.Pkg.Scope() {
							needsLocal[dec.Dst.Nodes[d]] = true
						}
					}
					return true
				})
				if hasMethods[declName(d)] {
					needsLocal[dec.Dst.Nodes[d]] = true // a type with methods moves only together with them
				}
				if fd, ok := d.(*ast.FuncDecl); ok && fd.Recv != nil {
					needsLocal[dec.Dst.Nodes[d]] = true // a method belongs to its receiver type's package
				}
			}
		}
	}
	sort.Strings(fnames)
	nonImport := func(f *dst.File) []int {
		var idx []int
		for i, d := range f.Decls {
			if gd, ok := d.(*dst.GenDecl); ok && gd.Tok == token.IMPORT {
				continue
			}
			idx = append(idx, i)
		}
		return idx
	}
	touched := map[string]bool{}
	for _, m := range c.Moves {
		src, dstf := trees[m.From], trees[m.To]
		if src == nil || dstf == nil {
			continue
		}
		idx := nonImport(src)
		if len(idx) == 0 {
			continue
		}
		di := idx[m.Decl%len(idx)]
		d := src.Decls[di]
		if m.Stmt >= 0 {
			// move one tagged statement of some function of the source file to the top of the
			// first plain function of the target file
			type at struct {
				fd *dst.FuncDecl
				i  int
			}
			var cand []at
			for _, sd := range src.Decls {
				if fd, ok := sd.(*dst.FuncDecl); ok && fd.Body != nil {
					for i, st := range fd.Body.List {
						if dstTag(st) != "" {
							cand = append(cand, at{fd, i})
						}
					}
				}
			}
			var host *dst.FuncDecl
			for _, td := range dstf.Decls {
				// (a parameter could shadow the import name the restorer chooses: outside the premise)
				if tf, ok := td.(*dst.FuncDecl); ok && tf.Body != nil && tf.Recv == nil && tf.Type.TypeParams == nil && (tf.Type.Params == nil || len(tf.Type.Params.List) == 0) {
					host = tf
					break
				}
			}
			if len(cand) == 0 || host == nil {
				h.Label("move-skipped:no-movable-statement-or-no-host")
				continue
			}
			pick := cand[(m.Decl*8+m.Stmt)%len(cand)]
			st := pick.fd.Body.List[pick.i]
			if m.Copy {
				st = dst.Clone(st).(dst.Stmt)
			} else {
				pick.fd.Body.List = append(pick.fd.Body.List[:pick.i:pick.i], pick.fd.Body.List[pick.i+1:]...)
			}
			host.Body.List = append([]dst.Stmt{st}, host.Body.List...)
			touched[m.From], touched[m.To] = true, true
			h.Label("move:statement")
			continue
		}
		if needsLocal[d] && filePkg[m.From] != filePkg[m.To] {
			h.Label("move-skipped:needs-objects-of-its-own-package")
			continue
		}
		if m.Copy || m.From == m.To {
			if filePkg[m.From] == filePkg[m.To] {
				continue // a copy inside one package would redeclare the name
			}
			d = dst.Clone(d).(dst.Decl)
		} else {
			src.Decls = append(src.Decls[:di:di], src.Decls[di+1:]...)
		}
		dstf.Decls = append(dstf.Decls, d)
		touched[m.From], touched[m.To] = true, true
	}
	// a script that leaves one top-level name twice in a package is not a valid history
	declared := map[string]map[string]bool{}
	for _, fn := range fnames {
		path := filePkg[fn]
		if declared[path] == nil {
			declared[path] = map[string]bool{}
		}
		for _, d := range trees[fn].Decls {
			var ns []string
			switch d := d.(type) {
			case *dst.FuncDecl:
				if d.Recv == nil {
					ns = append(ns, d.Name.Name)
				}
			case *dst.GenDecl:
				for _, sp := range d.Specs {
					switch sp := sp.(type) {
					case *dst.TypeSpec:
						ns = append(ns, sp.Name.Name)
					case *dst.ValueSpec:
						for _, id := range sp.Names {
							ns = append(ns, id.Name)
						}
					}
				}
			}
			for _, n := range ns {
				if declared[path][n] {
					h.Exclude("move script declares a name twice in one package")
					return
				}
				declared[path][n] = true
			}
		}
	}
	// restore every touched file with import management, then re-type-check the packages
	var rr resolver.RestorerResolver = simple.New(p.Names)
	if c.RestRes == 1 {
		rr = guess.WithMap(p.Names)
	}
	out := map[string]map[string]string{}
	for _, fn := range fnames {
		path := filePkg[fn]
		if out[path] == nil {
			out[path] = map[string]string{}
		}
		var buf bytes.Buffer
		h.Guard(t, sub, c, func() { err = decorator.NewRestorerWithImports(path, rr).Fprint(&buf, trees[fn]) })
		if err != nil {
			h.Fail(t, sub, c, "restoring %s after the moves failed: %v", fn, err)
		}
		out[path][fn] = buf.String()
	}
	for path, files := range out {
		// a declaration may have been moved twice into the same package: names stay unique because
		// cut removes the original and copies only cross packages; duplicates are a generator matter
		ck, err := p.CheckSources(imp, path, files)
		if err != nil {
			h.Fail(t, sub, c, "package %s does not type-check after the moves: %v\n%s", path, err, dump(files))
		}
		for _, af := range ck.Files {
			// coverage: an import aliased to the package name of another import of the same file
			for _, a := range af.Imports {
				for _, b := range af.Imports {
					if a != b && a.Name != nil && p.Names[strings.Trim(b.Path.Value, "\"")] == a.Name.Name {
						h.Label("after-move:alias-equals-name-of-other-import")
					}
				}
			}
		}
		for fn, af := range ck.Files {
			for tg, sts := range taggedStmts(af) {
				for _, st := range sts {
					if got, want := denotations(ck, st), beforeStmt[tg]; fmt.Sprint(got) != fmt.Sprint(want) {
						h.Fail(t, sub, c, "statement %s (now in %s of %s): its identifiers denoted %v, now %v\n%s", tg, fn, path, want, got, files[fn])
					}
				}
			}
		}
		for fn, af := range ck.Files {
			for _, d := range af.Decls {
				if gd, ok := d.(*ast.GenDecl); ok && gd.Tok == token.IMPORT {
					continue
				}
				want, ok := before[declName(d)]
				if !ok {
					continue
				}
				got := denotations(ck, d)
				if fmt.Sprint(got) != fmt.Sprint(want) {
					h.Fail(t, sub, c, "declaration %s (now in %s of %s): its identifiers denoted %v, now %v\n%s", declName(d), fn, path, want, got, files[fn])
				}
			}
		}
	}
}

func dump(files map[string]string) string {
	var sb strings.Builder
	for n, s := range files {
		sb.WriteString("--- " + n + "\n" + s)
	}
	return sb.String()
}

func genCase(t *rapid.T) (Case, bool) {
	const sub = "Move"
	p := gen.GenProg(t, 2, 2)
	c := Case{Libs: p.Libs, Pkgs: map[string]map[string]string{}, RestRes: rapid.IntRange(0, 1).Draw(t, "rest"), DecRes: rapid.IntRange(0, 2).Draw(t, "dec") / 2}
	var fn []string
	for _, f := range p.Files {
		if c.Pkgs[f.PkgPath] == nil {
			c.Pkgs[f.PkgPath] = map[string]string{}
		}
		c.Pkgs[f.PkgPath][f.Name] = f.Src
		fn = append(fn, f.Name)
	}
	sort.Strings(fn)
	nm := rapid.IntRange(1, 4).Draw(t, "nmoves")
	cross, differ := false, false
	for i := 0; i < nm; i++ {
		m := Move{From: fn[rapid.IntRange(0, len(fn)-1).Draw(t, "from")], To: fn[rapid.IntRange(0, len(fn)-1).Draw(t, "to")], Decl: rapid.IntRange(0, 50).Draw(t, "decl"), Stmt: -1, Copy: rapid.IntRange(0, 3).Draw(t, "copy") == 0}
		if rapid.IntRange(0, 2).Draw(t, "stmtmove") == 0 {
			m.Stmt = rapid.IntRange(0, 7).Draw(t, "stmt")
		}
		if m.From == m.To {
			continue
		}
		c.Moves = append(c.Moves, m)
		if strings.HasPrefix(m.From, "root") != strings.HasPrefix(m.To, "root") {
			cross = true
			h.Label("move:cross-package")
		} else {
			h.Label("move:same-package")
		}
	}
	if len(c.Moves) == 0 {
		h.Exclude("no effective move drawn")
		return c, false
	}
	// do source and target name some package differently?
	imports := map[string]map[int]string{}
	for _, f := range p.Files {
		imports[f.Name] = map[int]string{}
		for _, im := range f.Imports {
			imports[f.Name][im.Lib] = "imported as " + im.Alias
		}
	}
	for _, m := range c.Moves {
		for li := range p.Libs {
			if imports[m.From][li] != imports[m.To][li] {
				differ = true
			}
		}
	}
	if differ {
		h.NonTrivial(sub, fmt.Sprint(c.Pkgs), fmt.Sprint(c.Moves, c.RestRes, c.DecRes))
	}
	_ = cross
	h.Sample(sub, map[string]any{"files": fn, "moves": c.Moves})
	return c, true
}

var prop = h.Prop("Move", genCase, check)

func TestPropMove(t *testing.T) { rapid.Check(t, prop) }

func TestReplay(t *testing.T) { known.RunRegressions(t, "C10") }

func TestReplayFile(t *testing.T) { h.TestReplayEnv(t) }
