package c11

import (
	"fmt"
	"go/ast"
	"go/parser"
	"go/token"
	"testing"

	"github.com/dave/dst"
	"github.com/dave/dst/decorator"
	"github.com/dave/dst/decorator/resolver/goast"
	"pgregory.net/rapid"

	"verif/internal/gen"
	"verif/internal/h"
)

// EntryCase reaches the decorator through its other entry points: the only way from the returned
// dst tree back to the ast is then the Decorator's own maps.
type EntryCase struct {
	Entry    string `json:"entry"`          // parse | parsefile-broken | package | node
	Node     int    `json:"node,omitempty"` // with entry node: ordinal of the isolated declaration / statement / expression / spec handed to DecorateNode
	Src      string `json:"src"`
	Src2     string `json:"src2,omitempty"`
	Resolver bool   `json:"resolver"`
}

func checkEntries(t h.TB, c EntryCase) {
	const sub = "Entries"
	lc := Case{Src: c.Src, Src2: c.Src2, Resolver: c.Resolver, From: c.Entry}
	fset := token.NewFileSet()
	var dec *decorator.Decorator
	if c.Resolver {
		dec = decorator.NewDecoratorWithImports(fset, "example.com/self", goast.New())
	} else {
		dec = decorator.NewDecorator(fset)
	}
	astOf := func(df *dst.File) *ast.File {
		a, ok := dec.Ast.Nodes[df]
		if !ok {
			h.Fail(t, sub, c, "%s: the returned *dst.File has no entry in the Decorator's Ast.Nodes (map has %d entries)", c.Entry, len(dec.Ast.Nodes))
		}
		af, ok := a.(*ast.File)
		if !ok {
			h.Fail(t, sub, c, "%s: the returned *dst.File maps to %T", c.Entry, a)
		}
		return af
	}
	switch c.Entry {
	case "parse", "parsefile-broken":
		var df *dst.File
		var err error
		h.Guard(t, sub, c, func() { df, err = dec.ParseFile("x.go", c.Src, 0) })
		if c.Entry == "parse" {
			if err != nil {
				if c.Resolver {
					return // goast refuses dot-imports / ambiguous names: property C09
				}
				h.Fail(t, sub, c, "ParseFile: %v", err)
			}
		} else {
			if err == nil {
				t.Fatalf("harness: broken source parsed without error")
			}
			if df == nil {
				if c.Resolver {
					return
				}
				h.Fail(t, sub, c, "ParseFile returned no file for a source whose package clause parses: %v", err)
			}
		}
		laws(t, sub, lc, "decorator ("+c.Entry+")", astOf(df), df, dec.Dst.Nodes, dec.Ast.Nodes)
		if dec.Filenames[df] != "x.go" {
			h.Fail(t, sub, c, "%s: Filenames[file] = %q, want x.go", c.Entry, dec.Filenames[df])
		}
	case "node":
		af, err := parser.ParseFile(fset, "x.go", c.Src, parser.ParseComments)
		if err != nil {
			t.Fatalf("harness: %v", err)
		}
		var cands []ast.Node
		ast.Inspect(af, func(n ast.Node) bool {
			switch n.(type) {
			case *ast.Ident:
				// a bare identifier has no context to resolve it in: with a Resolver the decorator
				// refuses it by an assertion (not a documented use)
			case ast.Expr, ast.Stmt, ast.Decl, ast.Spec, *ast.Field, *ast.FieldList:
				cands = append(cands, n)
			}
			return true
		})
		if len(cands) == 0 {
			return
		}
		root := cands[c.Node%len(cands)]
		// An identifier inside the subtree may be bound (go/parser's object resolution) to a
		// declaration that *contains* the subtree, e.g. the parameter list of "func a(x [len(a)]int)":
		// decorating the object link then decorates the enclosing declaration as well, which creates
		// a second image of the isolated node. Such roots are not isolated; they are not used.
		ancestors := map[ast.Node]bool{}
		{
			var stack []ast.Node
			ast.Inspect(af, func(n ast.Node) bool {
				if n == nil {
					stack = stack[:len(stack)-1]
					return true
				}
				if n == root {
					for _, a := range stack {
						ancestors[a] = true
					}
				}
				stack = append(stack, n)
				return true
			})
		}
		leadsOut := false
		seen := map[ast.Node]bool{}
		var follow func(n ast.Node)
		follow = func(n ast.Node) {
			ast.Inspect(n, func(m ast.Node) bool {
				if id, ok := m.(*ast.Ident); ok && id.Obj != nil {
					if d, ok := id.Obj.Decl.(ast.Node); ok && !seen[d] {
						seen[d] = true
						if ancestors[d] {
							leadsOut = true
						}
						follow(d) // (transitively: x in "func f(a [len(x)]T)" may be declared as "x = f()")
					}
				}
				return !leadsOut
			})
		}
		follow(root)
		if leadsOut {
			h.Exclude("an object link of the isolated subtree leads to a declaration that contains it")
			return
		}
		var node dst.Node
		h.Guard(t, sub, c, func() { node, err = dec.DecorateNode(root) })
		if err != nil {
			if c.Resolver {
				return // the syntax-based resolver cannot work without the file
			}
			h.Fail(t, sub, c, "DecorateNode(%T): %v", root, err)
		}
		if dec.Dst.Nodes[root] != node {
			h.Fail(t, sub, c, "node: Dst.Nodes[root] is not the node DecorateNode returned for %T", root)
		}
		laws(t, sub, lc, fmt.Sprintf("decorator (isolated %T)", root), root, node, dec.Dst.Nodes, dec.Ast.Nodes)
	case "package":
		pkg := &ast.Package{Name: "p", Files: map[string]*ast.File{}}
		for n, s := range map[string]string{"x.go": c.Src, "y.go": c.Src2} {
			af, err := parser.ParseFile(fset, n, s, parser.ParseComments)
			if err != nil {
				t.Fatalf("harness: %v", err)
			}
			pkg.Files[n] = af
		}
		var node dst.Node
		var err error
		h.Guard(t, sub, c, func() { node, err = dec.DecorateNode(pkg) })
		if err != nil {
			if c.Resolver {
				return
			}
			h.Fail(t, sub, c, "DecorateNode(*ast.Package): %v", err)
		}
		dpkg, ok := node.(*dst.Package)
		if !ok {
			h.Fail(t, sub, c, "DecorateNode(*ast.Package) returned %T", node)
		}
		if dec.Dst.Nodes[pkg] != dst.Node(dpkg) {
			h.Fail(t, sub, c, "package: Dst.Nodes[*ast.Package] is %v, not the returned *dst.Package", dec.Dst.Nodes[pkg])
		}
		if dec.Ast.Nodes[dpkg] != ast.Node(pkg) {
			h.Fail(t, sub, c, "package: Ast.Nodes[*dst.Package] is %v, not the decorated *ast.Package", dec.Ast.Nodes[dpkg])
		}
		if len(dpkg.Files) != 2 {
			h.Fail(t, sub, c, "package: %d files in the *dst.Package, want 2", len(dpkg.Files))
		}
		for _, n := range []string{"x.go", "y.go"} {
			df := dpkg.Files[n]
			if df == nil {
				h.Fail(t, sub, c, "package: file %s missing from the *dst.Package", n)
			}
			if dec.Dst.Nodes[pkg.Files[n]] != dst.Node(df) {
				h.Fail(t, sub, c, "package: child file %s of the package does not map to the child of its image", n)
			}
			laws(t, sub, lc, "decorator (package, "+n+")", pkg.Files[n], df, dec.Dst.Nodes, dec.Ast.Nodes)
		}
	}
}

func genEntries(t *rapid.T) (EntryCase, bool) {
	const sub = "Entries"
	raw, _ := gen.SynFile(t, rapid.IntRange(10, 120).Draw(t, "size"))
	src, _ := gen.Inject(t, []byte(raw), gen.LayoutOpts{Max: 4})
	c := EntryCase{Entry: []string{"parse", "parsefile-broken", "package", "node"}[rapid.IntRange(0, 3).Draw(t, "entry")], Src: string(src), Resolver: rapid.IntRange(0, 3).Draw(t, "resolver") == 0}
	switch c.Entry {
	case "parsefile-broken":
		mut, _ := gen.Mutate(t, src)
		f, err := parser.ParseFile(token.NewFileSet(), "x.go", mut, parser.ParseComments)
		if err == nil || f == nil || !f.Package.IsValid() {
			h.Exclude("mutation left the source parseable, or broke its package clause")
			return c, false
		}
		c.Src = string(mut)
	case "node":
		c.Node = rapid.IntRange(0, 3000).Draw(t, "node")
	case "package":
		c.Src2, _ = gen.SynFile(t, rapid.IntRange(10, 80).Draw(t, "size2"))
	}
	h.Label("entry:" + c.Entry)
	h.NonTrivial(sub, c.Entry, c.Src, c.Src2, fmt.Sprint(c.Node))
	h.Sample(sub, map[string]any{"entry": c.Entry, "resolver": c.Resolver, "src": h.Trunc(c.Src, 300)})
	return c, true
}

var propEntries = h.Prop("Entries", genEntries, checkEntries)

func TestPropEntries(t *testing.T) { rapid.Check(t, propEntries) }
