// C11 — node maps are exact inverse correspondences between ast and dst.
// Oracle: laws checked by walking both trees with go/ast.Inspect and reflection.
package c11

import (
	"encoding/json"
	"fmt"
	"go/ast"
	"go/parser"
	"go/token"
	"os"
	"reflect"
	"strings"
	"testing"

	"github.com/dave/dst"
	"github.com/dave/dst/decorator"
	"github.com/dave/dst/decorator/resolver/goast"
	"github.com/dave/dst/decorator/resolver/guess"
	"pgregory.net/rapid"

	"verif/internal/dsth"
	"verif/internal/gen"
	"verif/internal/h"
	"verif/internal/known"
)

func TestMain(m *testing.M) { h.Main(m, "C11") }

type Case struct {
	Src      string `json:"src"`
	From     string `json:"from,omitempty"`
	Resolver bool   `json:"resolver"` // decorate / restore with import management (goast + guess)
	Extras   bool   `json:"extras"`
	Src2     string `json:"src2,omitempty"` // a second file decorated and restored with the same Decorator / Restorer afterwards
}

func isComment(n ast.Node) bool {
	switch n.(type) {
	case *ast.Comment, *ast.CommentGroup:
		return true
	}
	return false
}

// astChildren returns the direct non-comment children of n in go/ast traversal order.
func astChildren(n ast.Node) []ast.Node {
	var out []ast.Node
	depth := 0
	ast.Inspect(n, func(c ast.Node) bool {
		if c == nil {
			depth--
			return true
		}
		if isComment(c) {
			return false
		}
		depth++
		if depth == 2 {
			out = append(out, c)
			depth--
			return false
		}
		return true
	})
	return out
}

func dstChildren(n dst.Node) []dst.Node {
	var out []dst.Node
	depth := 0
	dst.Inspect(n, func(c dst.Node) bool {
		if c == nil {
			depth--
			return true
		}
		depth++
		if depth == 2 {
			out = append(out, c)
			depth--
			return false
		}
		return true
	})
	return out
}

func typeName(n interface{}) string {
	s := fmt.Sprintf("%T", n)
	return s[strings.LastIndex(s, ".")+1:]
}

// laws checks the correspondence between one ast tree and one dst tree through the two maps.
func laws(t h.TB, sub string, c Case, who string, af ast.Node, df dst.Node, toDst map[ast.Node]dst.Node, toAst map[dst.Node]ast.Node) (collapsed int) {
	for k := range toDst {
		if k == nil || reflect.ValueOf(k).IsNil() {
			h.Fail(t, sub, c, "%s: nil key in Dst.Nodes (%T)", who, k)
		}
	}
	for k := range toAst {
		if k == nil || reflect.ValueOf(k).IsNil() {
			h.Fail(t, sub, c, "%s: nil key in Ast.Nodes (%T)", who, k)
		}
	}
	dstTree := map[dst.Node]bool{}
	for _, n := range dsth.Nodes(df) {
		dstTree[n] = true
	}
	astTree := map[ast.Node]bool{}
	var astNodes []ast.Node
	ast.Inspect(af, func(n ast.Node) bool {
		if n == nil || isComment(n) {
			return false
		}
		astTree[n] = true
		astNodes = append(astNodes, n)
		return true
	})
	inCollapsed := map[ast.Node]bool{} // X and Sel of collapsed selectors
	for _, a := range astNodes {
		d, ok := toDst[a]
		if !ok || d == nil {
			h.Fail(t, sub, c, "%s: ast node %s has no dst counterpart", who, typeName(a))
		}
		if !dstTree[d] {
			h.Fail(t, sub, c, "%s: ast node %s maps to a %s that is not a node of the dst tree", who, typeName(a), typeName(d))
		}
		back, ok := toAst[d]
		if !ok {
			h.Fail(t, sub, c, "%s: dst node %s (image of ast %s) has no ast counterpart", who, typeName(d), typeName(a))
		}
		if sel, isSel := a.(*ast.SelectorExpr); isSel {
			if id, isID := d.(*dst.Ident); isID {
				// the documented 3 -> 1 collapse
				if id.Path == "" {
					h.Fail(t, sub, c, "%s: SelectorExpr maps to an Ident without Path", who)
				}
				if back != ast.Node(sel) {
					h.Fail(t, sub, c, "%s: collapsed Ident %s maps back to %s, not to its SelectorExpr", who, id.Name, typeName(back))
				}
				if toDst[sel.X] != d || toDst[sel.Sel] != d {
					h.Fail(t, sub, c, "%s: X / Sel of collapsed selector %s.%s do not map to the one dst Ident (X->%p Sel->%p want %p)", who, sel.X, sel.Sel.Name, toDst[sel.X], toDst[sel.Sel], d)
				}
				inCollapsed[sel.X], inCollapsed[sel.Sel] = true, true
				collapsed++
				if len(dstChildren(d)) != 0 {
					h.Fail(t, sub, c, "%s: collapsed Ident has children", who)
				}
				continue
			}
		}
		if inCollapsed[a] {
			continue
		}
		if typeName(a) != typeName(d) {
			h.Fail(t, sub, c, "%s: ast %s corresponds to dst %s", who, typeName(a), typeName(d))
		}
		if back != a {
			h.Fail(t, sub, c, "%s: maps are not inverse at %s: Ast.Nodes[Dst.Nodes[a]] is another %s", who, typeName(a), typeName(back))
		}
		// parent / child commutation
		ac, dc := astChildren(a), dstChildren(d)
		if len(ac) != len(dc) {
			h.Fail(t, sub, c, "%s: %s has %d children, its dst image %d", who, typeName(a), len(ac), len(dc))
		}
		for i := range ac {
			if toDst[ac[i]] != dc[i] {
				h.Fail(t, sub, c, "%s: child %d of %s (%s) does not map to child %d of its image (%s)", who, i, typeName(a), typeName(ac[i]), i, typeName(dc[i]))
			}
		}
	}
	for d := range dstTree {
		a, ok := toAst[d]
		if !ok || a == nil {
			h.Fail(t, sub, c, "%s: dst node %s has no ast counterpart", who, typeName(d))
		}
		if !astTree[a] {
			h.Fail(t, sub, c, "%s: dst node %s maps to a %s that is not a node of the ast", who, typeName(d), typeName(a))
		}
		if toDst[a] != d {
			h.Fail(t, sub, c, "%s: maps are not inverse at dst %s", who, typeName(d))
		}
	}
	return collapsed
}

func check(sub string) func(t h.TB, c Case) {
	return func(t h.TB, c Case) {
		fset := token.NewFileSet()
		af, err := parser.ParseFile(fset, "x.go", c.Src, parser.ParseComments)
		if err != nil {
			t.Fatalf("harness: %v", err)
		}
		var dec *decorator.Decorator
		if c.Resolver {
			dec = decorator.NewDecoratorWithImports(fset, "example.com/self", goast.New())
		} else {
			dec = decorator.NewDecorator(fset)
		}
		var df *dst.File
		h.Guard(t, sub, c, func() { df, err = dec.DecorateFile(af) })
		if err != nil {
			if c.Resolver {
				return // goast refuses dot-imports / ambiguous names: property C09
			}
			h.Fail(t, sub, c, "DecorateFile: %v", err)
		}
		laws(t, sub, c, "decorator", af, df, dec.Dst.Nodes, dec.Ast.Nodes)
		// one Decorator and one Restorer serve a whole package: the maps accumulate, and the laws
		// must still hold for the first file after a second one has been processed
		var af2 *ast.File
		var df2 *dst.File
		if c.Src2 != "" {
			af2, err = parser.ParseFile(fset, "y.go", c.Src2, parser.ParseComments)
			if err != nil {
				t.Fatalf("harness: %v", err)
			}
			h.Guard(t, sub, c, func() { df2, err = dec.DecorateFile(af2) })
			if err != nil {
				if c.Resolver {
					return
				}
				h.Fail(t, sub, c, "DecorateFile (second file): %v", err)
			}
			laws(t, sub, c, "decorator, first file after second", af, df, dec.Dst.Nodes, dec.Ast.Nodes)
			laws(t, sub, c, "decorator, second file", af2, df2, dec.Dst.Nodes, dec.Ast.Nodes)
		}

		var res *decorator.Restorer
		if c.Resolver {
			res = decorator.NewRestorerWithImports("example.com/self", guess.New())
		} else {
			res = decorator.NewRestorer()
		}
		res.Extras = c.Extras
		var rf *ast.File
		h.Guard(t, sub, c, func() { rf, err = res.RestoreFile(df) })
		if err != nil {
			h.Fail(t, sub, c, "RestoreFile: %v", err)
		}
		laws(t, sub, c, "restorer", rf, df, res.Dst.Nodes, res.Ast.Nodes)
		if df2 != nil {
			var rf2 *ast.File
			h.Guard(t, sub, c, func() { rf2, err = res.RestoreFile(df2) })
			if err != nil {
				h.Fail(t, sub, c, "RestoreFile (second file): %v", err)
			}
			laws(t, sub, c, "restorer, first file after second", rf, df, res.Dst.Nodes, res.Ast.Nodes)
			laws(t, sub, c, "restorer, second file", rf2, df2, res.Dst.Nodes, res.Ast.Nodes)
		}
	}
}

func genCase(sub string) func(t *rapid.T) (Case, bool) {
	return func(t *rapid.T) (Case, bool) {
		var src []byte
		from := "G-SYN"
		if rapid.IntRange(0, 3).Draw(t, "src") == 0 {
			from, src = gen.CorpusFile(t)
		} else {
			raw, kinds := gen.SynFile(t, rapid.IntRange(10, 250).Draw(t, "size"))
			for k := range kinds {
				h.Label("syn:" + k)
			}
			src, _ = gen.Inject(t, []byte(raw), gen.LayoutOpts{Max: 4})
		}
		fset := token.NewFileSet()
		af, err := parser.ParseFile(fset, "", src, parser.ParseComments)
		if err != nil {
			h.Exclude("base does not parse")
			return Case{}, false
		}
		c := Case{Src: string(src), From: from, Resolver: rapid.IntRange(0, 2).Draw(t, "resolver") > 0, Extras: rapid.Bool().Draw(t, "extras")}
		if rapid.IntRange(0, 2).Draw(t, "second") == 0 {
			raw, _ := gen.SynFile(t, rapid.IntRange(10, 80).Draw(t, "size2"))
			if _, err := parser.ParseFile(token.NewFileSet(), "", raw, 0); err == nil {
				c.Src2 = raw
				h.Label("two-files")
			}
		}
		hasFunc, sels := false, 0
		ast.Inspect(af, func(n ast.Node) bool {
			switch n.(type) {
			case *ast.FuncDecl:
				hasFunc = true
			case *ast.SelectorExpr:
				sels++
			}
			return true
		})
		if c.Resolver {
			h.Label("with-resolver")
		}
		if hasFunc && (!c.Resolver || sels > 0) {
			h.NonTrivial(sub, c.Src, fmt.Sprint(c.Resolver, c.Extras))
		}
		h.Sample(sub, map[string]any{"from": from, "resolver": c.Resolver, "extras": c.Extras, "src": h.Trunc(c.Src, 300)})
		return c, true
	}
}

var prop = h.Prop("Laws", genCase("Laws"), check("Laws"))

func TestPropLaws(t *testing.T) { rapid.Check(t, prop) }

func TestReplay(t *testing.T) {
	known.RunWitnesses(t, "C11", func(t h.TB, w known.Witness) {
		if w.Sub == "Entries" {
			var ec EntryCase
			if err := json.Unmarshal(w.Case, &ec); err != nil {
				t.Fatalf("harness: witness %s: %v", w.Name, err)
			}
			checkEntries(t, ec)
			return
		}
		check("Witness")(t, Case{Src: w.Input, Resolver: true})
	})
	known.RunRegressions(t, "C11")
	files := gen.CorpusAll()
	stride := 1
	if os.Getenv("VERIF_TIER") != "thorough" {
		stride = 12
	}
	off := 0
	fmt.Sscan(os.Getenv("VERIF_SEED"), &off)
	for i := off % stride; i < len(files); i += stride {
		src := gen.ReadCorpus(files[i])
		if _, err := parser.ParseFile(token.NewFileSet(), "", src, parser.ParseComments); err != nil {
			continue
		}
		h.Eval("CorpusSweep")
		check("CorpusSweep")(t, Case{Src: string(src), From: files[i], Resolver: i%2 == 0, Extras: i%3 == 0})
		h.NonTrivial("CorpusSweep", files[i])
	}
}

func init() {
	h.RegisterReplay("Witness", check("Witness"))
	h.RegisterReplay("CorpusSweep", check("CorpusSweep"))
}

func TestReplayFile(t *testing.T) { h.TestReplayEnv(t) }
