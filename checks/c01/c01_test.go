// C01 — decorate then print reproduces gofmt-canonical source byte for byte, through every entry
// point. Oracle: the input bytes themselves (the input is a gofmt fixpoint by construction).
package c01

import (
	"bytes"
	"fmt"
	"go/parser"
	"go/token"
	"os"
	"path/filepath"
	"sort"
	"strings"
	"testing"

	"github.com/dave/dst"
	"github.com/dave/dst/decorator"
	"pgregory.net/rapid"

	"verif/internal/dsth"
	"verif/internal/gen"
	"verif/internal/h"
	"verif/internal/known"
	"verif/internal/oracle"
)

func TestMain(m *testing.M) { h.Main(m, "C01") }

// Case is one round-trip case.
type Case struct {
	Src   string `json:"src"`
	Entry int    `json:"entry"`
	Pre   int    `json:"pre"`
	Mode  int    `json:"mode"`
	From  string `json:"from,omitempty"`
}

func checkRoundTrip(sub string) func(t h.TB, c Case) {
	return func(t h.TB, c Case) {
		src := []byte(c.Src)
		var out []byte
		var err error
		h.Guard(t, sub, c, func() { out, err = dsth.RoundTrip(src, c.Entry, c.Pre, c.Mode) })
		if err != nil {
			h.Fail(t, sub, c, "entry %q returned an error on valid canonical source: %v", dsth.EntryName(c.Entry), err)
		}
		if bytes.Equal(out, src) {
			return
		}
		// Mismatch. Strict unless the input lies in the class of an open known finding; then
		// it is judged at token / shape / comment level.
		cls := known.LayoutClass(src)
		if cls == "" {
			h.Fail(t, sub, c, "entry %q: output differs from canonical input: %s\n--- got ---\n%s", dsth.EntryName(c.Entry), oracle.FirstDiffLine(src, out), out)
		}
		h.KnownHit(cls)
		if d := known.WeakDiff(src, out); d != "" {
			h.Fail(t, sub, c, "entry %q: input of class %s changed beyond layout: %s\n--- got ---\n%s", dsth.EntryName(c.Entry), cls, d, out)
		}
	}
}

// canonical prepares a generated text: gofmt fixpoint or excluded.
func canonical(src []byte) ([]byte, bool) {
	out, fix, err := oracle.Canon(src)
	if err != nil {
		h.Exclude("generator produced unparseable text")
		return nil, false
	}
	if !fix {
		h.Exclude("gofmt not idempotent on this text")
		return nil, false
	}
	return out, true
}

func classify(sub string, src []byte, kinds []string) {
	fset, f, err := oracle.Parse(src)
	if err != nil {
		return
	}
	nk, inner := dsth.NodeKinds(fset, f, src)
	for _, k := range kinds {
		h.Label("inject:" + k)
	}
	if len(f.Comments) > 0 {
		h.Label("has-comments")
	}
	if cls := known.LayoutClass(src); cls != "" {
		h.Label("class:" + cls)
	}
	if inner && nk >= 6 {
		h.NonTrivial(sub, string(src))
	}
}

func genSyn(sub string) func(t *rapid.T) (Case, bool) {
	return func(t *rapid.T) (Case, bool) {
		raw, kinds := gen.SynFile(t, rapid.IntRange(10, 250).Draw(t, "size"))
		for k := range kinds {
			h.Label("syn:" + k)
		}
		inj, ik := gen.Inject(t, []byte(raw), gen.LayoutOpts{Max: 14, Special: rapid.IntRange(0, 4).Draw(t, "special") == 0})
		src, ok := canonical(inj)
		if !ok {
			return Case{}, false
		}
		c := Case{Src: string(src), Entry: rapid.IntRange(0, dsth.NumEntries-1).Draw(t, "entry"), Pre: rapid.IntRange(0, 3).Draw(t, "pre"), Mode: rapid.IntRange(0, dsth.NumModes-1).Draw(t, "mode"), From: "G-SYN+G-LAYOUT"}
		h.Label("entry:" + dsth.EntryName(c.Entry))
		classify(sub, src, ik)
		h.Sample(sub, map[string]any{"entry": dsth.EntryName(c.Entry), "src": h.Trunc(c.Src, 600)})
		return c, true
	}
}

func genCorpus(sub string) func(t *rapid.T) (Case, bool) {
	return func(t *rapid.T) (Case, bool) {
		p, base := gen.CorpusFile(t)
		if base == nil {
			h.Exclude("no corpus")
			return Case{}, false
		}
		if _, err := parser.ParseFile(token.NewFileSet(), "", base, parser.ParseComments); err != nil {
			h.Exclude("corpus file does not parse (testdata)")
			return Case{}, false
		}
		inj, ik := gen.Inject(t, base, gen.LayoutOpts{Max: 10, Special: rapid.IntRange(0, 4).Draw(t, "special") == 0})
		src, ok := canonical(inj)
		if !ok {
			return Case{}, false
		}
		c := Case{Src: string(src), Entry: rapid.IntRange(0, dsth.NumEntries-1).Draw(t, "entry"), Pre: rapid.IntRange(0, 3).Draw(t, "pre"), Mode: rapid.IntRange(0, dsth.NumModes-1).Draw(t, "mode"), From: p}
		h.Label("entry:" + dsth.EntryName(c.Entry))
		classify(sub, src, ik)
		h.Sample(sub, map[string]any{"entry": dsth.EntryName(c.Entry), "base": p, "injections": ik})
		return c, true
	}
}

var (
	propSyn    = h.Prop("Syn", genSyn("Syn"), checkRoundTrip("Syn"))
	propCorpus = h.Prop("Corpus", genCorpus("Corpus"), checkRoundTrip("Corpus"))
	propDir    = h.Prop("ParseDir", genDir, checkDir)
)

func init() {
	h.RegisterReplay("Witness", func(t h.TB, c Case) {
		out, err := dsth.RoundTrip([]byte(c.Src), c.Entry, c.Pre, c.Mode)
		if err != nil || !bytes.Equal(out, []byte(c.Src)) {
			h.Fail(t, "Witness", c, "does not round-trip byte for byte: %v %s", err, oracle.FirstDiffLine([]byte(c.Src), out))
		}
	})
	h.RegisterReplay("CorpusSweep", checkRoundTrip("CorpusSweep"))
	h.RegisterReplay("Fuzz", checkRoundTrip("Fuzz"))
}

func TestPropSyn(t *testing.T)    { rapid.Check(t, propSyn) }
func TestPropCorpus(t *testing.T) { rapid.Check(t, propCorpus) }

// HangCase: the hanging-indent layouts the decorator has explicit support for (comments after a
// clause body at body indentation, also after an empty clause; comments before the next clause at
// clause indentation; trailing comments before the closing brace). They are column-dependent for
// go/printer, so ColumnRobust classes many of them as KF-1 — but dave/dst reproduces every one of
// them on the pinned tree (2 048 of 2 048 in an exhaustive probe), so this family is judged by
// strict byte equality, without any class predicate.
type HangCase struct {
	Src string `json:"src"`
}

var tailTemplates = []string{
	"var x%d = f(\n\ta,\n\tb,\nTAIL)\n",
	"var y%d = []T{\n\t1,\n\t2,\nTAIL}\n",
	"var z%d = T{\n\tA: 1,\nTAIL}\n",
	"type S%d struct {\n\ta int\nTAIL}\n",
	"type I%d interface {\n\tM()\nTAIL}\n",
	"const (\n\tc%d = 1\nTAIL)\n",
	"var (\n\tv%d int\nTAIL)\n",
	"func g%d(\n\ta int,\nTAIL) {\n}\n",
	"func h%d() {\n\ta()\nTAIL}\n",
	"func i%d() {\n\tif x {\n\t\ta()\nTAILTAB\t}\n}\n",
	"func j%d() {\n\tfor {\n\t\ta()\nTAILTAB\t}\n}\n",
	"func k%d() {\n\tx := f(\n\t\ta,\nTAILTAB\t)\n}\n",
	"func l%d() {\n\tgo func() {\n\t\ta()\nTAILTAB\t}()\n}\n",
}

// genTails: comments (indented like the elements) between the last element of a list or block
// and its closing delimiter — another layout family that go/printer lays out by column and that
// dave/dst reproduces on the pinned tree (65 of 65 canonical combinations in a probe).
func genTails(t *rapid.T) (HangCase, bool) {
	const sub = "Hanging"
	var sb strings.Builder
	sb.WriteString("package p\n")
	for i, n := 0, rapid.IntRange(1, 4).Draw(t, "ndecls"); i < n; i++ {
		tp := fmt.Sprintf(tailTemplates[rapid.IntRange(0, len(tailTemplates)-1).Draw(t, "template")], i)
		tail := []string{"\t// t\n", "\n\t// t\n", "\t// t\n\t// u\n", "\t/* t */\n", "\t// t\n\n", ""}[rapid.IntRange(0, 5).Draw(t, "tail")]
		if strings.Contains(tp, "TAILTAB") {
			var t2 strings.Builder
			for _, ln := range strings.SplitAfter(tail, "\n") {
				if len(ln) > 1 {
					t2.WriteString("\t")
				}
				t2.WriteString(ln)
			}
			tp = strings.Replace(tp, "TAILTAB", t2.String(), 1)
		} else {
			tp = strings.Replace(tp, "TAIL", tail, 1)
		}
		sb.WriteString("\n" + tp)
	}
	src := sb.String()
	if !oracle.IsCanon([]byte(src)) {
		h.Exclude("tail template is not a gofmt fixpoint")
		return HangCase{}, false
	}
	h.Label("hanging:tails-family")
	h.NonTrivial(sub, src)
	return HangCase{Src: src}, true
}

func genHang(t *rapid.T) (HangCase, bool) {
	const sub = "Hanging"
	if rapid.IntRange(0, 2).Draw(t, "family") == 0 {
		return genTails(t)
	}
	var sb strings.Builder
	n := 0
	id := func() int { n++; return n }
	var clauses func(ind string, depth int)
	stmt := func(ind string, depth int) {
		switch rapid.IntRange(0, 6).Draw(t, "stmt") {
		case 0:
			if depth < 2 {
				clauses(ind, depth+1)
				return
			}
			fmt.Fprintf(&sb, "%sb%d()\n", ind, id())
		case 2:
			fmt.Fprintf(&sb, "%sif c%d {\n%s\tb%d()\n%s\t// inif%d\n%s}\n", ind, id(), ind, id(), ind, id(), ind)
		default:
			fmt.Fprintf(&sb, "%sb%d()\n", ind, id())
		}
	}
	clauses = func(ind string, depth int) {
		kind := rapid.IntRange(0, 2).Draw(t, "kind")
		hdrs := [][]string{{"case 1:", "case 2, 3:", "default:", "case f():"}, {"case <-c:", "case v := <-c:", "default:", "case c <- 1:"}, {"case int:", "case string, bool:", "default:", "case nil:"}}[kind]
		sb.WriteString(ind + []string{"switch x {", "select {", "switch y := x.(type) {"}[kind] + "\n")
		nc := rapid.IntRange(1, 4).Draw(t, "nclauses")
		for i := 0; i < nc; i++ {
			if i > 0 {
				for j, m := 0, rapid.IntRange(0, 2).Draw(t, "lead"); j < m; j++ {
					fmt.Fprintf(&sb, "%s// lead%d\n", ind, id())
				}
			}
			sb.WriteString(ind + hdrs[rapid.IntRange(0, len(hdrs)-1).Draw(t, "hdr")] + "\n")
			for j, m := 0, rapid.IntRange(0, 2).Draw(t, "body"); j < m; j++ {
				stmt(ind+"\t", depth)
			}
			for j, m := 0, rapid.IntRange(0, 2).Draw(t, "hang"); j < m; j++ {
				if rapid.IntRange(0, 4).Draw(t, "blank") == 0 {
					sb.WriteString("\n")
				}
				fmt.Fprintf(&sb, "%s\t// hang%d\n", ind, id())
			}
		}
		sb.WriteString(ind + "}\n")
	}
	sb.WriteString("package p\n\nfunc f() {\n")
	for i, m := 0, rapid.IntRange(1, 3).Draw(t, "top"); i < m; i++ {
		stmt("\t", 0)
	}
	if rapid.Bool().Draw(t, "tail") {
		fmt.Fprintf(&sb, "\t// tail%d\n", id())
	}
	sb.WriteString("}\n")
	src := sb.String()
	if !oracle.IsCanon([]byte(src)) {
		h.Exclude("hanging-indent template is not a gofmt fixpoint")
		return HangCase{}, false
	}
	if strings.Contains(src, "// hang") || strings.Contains(src, "// lead") {
		h.NonTrivial(sub, src)
	}
	if known.LayoutClass([]byte(src)) != "" {
		h.Label("hanging:classed-column-dependent-but-judged-strictly")
	}
	h.Sample(sub, src)
	return HangCase{Src: src}, true
}

func checkHang(t h.TB, c HangCase) {
	const sub = "Hanging"
	for e := 0; e < 2; e++ {
		var out []byte
		var err error
		h.Guard(t, sub, c, func() { out, err = dsth.RoundTrip([]byte(c.Src), e*3, e, 0) })
		if err != nil {
			h.Fail(t, sub, c, "round trip failed: %v", err)
		}
		if !bytes.Equal(out, []byte(c.Src)) {
			h.Fail(t, sub, c, "hanging-indent layout is not reproduced: %s\n--- got ---\n%s", oracle.FirstDiffLine([]byte(c.Src), out), out)
		}
	}
}

var propHang = h.Prop("Hanging", genHang, checkHang)

func TestPropHanging(t *testing.T) { rapid.Check(t, propHang) }

// DirCase is a directory of canonical files for the ParseDir entry point.
type DirCase struct {
	Files  map[string]string `json:"files"` // name -> canonical source
	Filter string            `json:"filter"`
	Shared bool              `json:"shared_restorer"`
}

func checkDir(t h.TB, c DirCase) {
	const sub = "ParseDir"
	dir, err := os.MkdirTemp("", "verif-c01-")
	if err != nil {
		t.Fatalf("infrastructure: %v", err)
	}
	defer os.RemoveAll(dir)
	for name, src := range c.Files {
		if err := os.WriteFile(filepath.Join(dir, name), []byte(src), 0o644); err != nil {
			t.Fatalf("infrastructure: %v", err)
		}
	}
	var filter func(os.FileInfo) bool
	if c.Filter != "" {
		filter = func(fi os.FileInfo) bool { return !strings.HasPrefix(fi.Name(), c.Filter) }
	}
	var pkgs map[string]*dst.Package
	dec := decorator.NewDecorator(token.NewFileSet())
	h.Guard(t, sub, c, func() {
		if c.Shared {
			pkgs, err = dec.ParseDir(dir, filter, parser.ParseComments)
		} else {
			pkgs, err = decorator.ParseDir(token.NewFileSet(), dir, filter, 0)
		}
	})
	if err != nil {
		h.Fail(t, sub, c, "ParseDir returned an error on valid files: %v", err)
	}
	got := map[string]bool{}
	r := decorator.NewRestorer()
	var pnames []string
	for pn := range pkgs {
		pnames = append(pnames, pn)
	}
	sort.Strings(pnames)
	for _, pn := range pnames {
		pkg := pkgs[pn]
		var fnames []string
		for fn := range pkg.Files {
			fnames = append(fnames, fn)
		}
		sort.Strings(fnames)
		for _, fn := range fnames {
			f := pkg.Files[fn]
			base := filepath.Base(fn)
			want, ok := c.Files[base]
			if !ok {
				h.Fail(t, sub, c, "ParseDir returned a file %q that is not in the directory", fn)
			}
			if c.Filter != "" && strings.HasPrefix(base, c.Filter) {
				h.Fail(t, sub, c, "ParseDir returned filtered file %q", fn)
			}
			got[base] = true
			var buf bytes.Buffer
			h.Guard(t, sub, c, func() {
				if c.Shared {
					err = r.Fprint(&buf, f)
				} else {
					err = decorator.Fprint(&buf, f)
				}
			})
			if err != nil {
				h.Fail(t, sub, c, "printing %s: %v", fn, err)
			}
			if buf.String() != want {
				cls := known.LayoutClass([]byte(want))
				if cls == "" {
					h.Fail(t, sub, c, "file %s differs after ParseDir round trip: %s", base, oracle.FirstDiffLine([]byte(want), buf.Bytes()))
				}
				h.KnownHit(cls)
				if d := known.WeakDiff([]byte(want), buf.Bytes()); d != "" {
					h.Fail(t, sub, c, "file %s (class %s) changed beyond layout: %s", base, cls, d)
				}
			}
			if c.Shared {
				if name := dec.Filenames[f]; name != fn {
					h.Fail(t, sub, c, "Decorator.Filenames[%s] = %q", fn, name)
				}
			}
		}
	}
	for name := range c.Files {
		if strings.HasSuffix(name, ".go") && !(c.Filter != "" && strings.HasPrefix(name, c.Filter)) && !got[name] {
			h.Fail(t, sub, c, "ParseDir did not return %s", name)
		}
	}
}

func genDir(t *rapid.T) (DirCase, bool) {
	const sub = "ParseDir"
	c := DirCase{Files: map[string]string{}, Shared: rapid.Bool().Draw(t, "shared")}
	n := rapid.IntRange(1, 4).Draw(t, "nfiles")
	if rapid.IntRange(0, 2).Draw(t, "filter") == 0 {
		c.Filter = "skip"
	}
	nontrivial := false
	for i := 0; i < n; i++ {
		raw, _ := gen.SynFile(t, rapid.IntRange(10, 80).Draw(t, "size"))
		inj, _ := gen.Inject(t, []byte(raw), gen.LayoutOpts{Max: 6})
		src, ok := canonical(inj)
		if !ok {
			return c, false
		}
		name := fmt.Sprintf("f%d.go", i)
		if c.Filter != "" && i == 1 {
			name = "skip" + name
		}
		c.Files[name] = string(src)
		if bytes.Contains(src, []byte("//")) || bytes.Contains(src, []byte("/*")) {
			nontrivial = true
		}
	}
	if rapid.Bool().Draw(t, "bystander") {
		c.Files["README.txt"] = "not go\n"
	}
	if nontrivial && n >= 2 {
		var key []string
		for k, v := range c.Files {
			key = append(key, k+v)
		}
		sort.Strings(key)
		h.NonTrivial(sub, key...)
	}
	h.Label(fmt.Sprintf("dir:files=%d", n))
	h.Sample(sub, map[string]any{"files": len(c.Files), "filter": c.Filter, "shared": c.Shared})
	return c, true
}

func TestPropParseDir(t *testing.T) { rapid.Check(t, propDir) }

// TestReplay is the replay tier: witnesses of known findings, committed regressions, and a
// sweep over the fixed corpus (every canonical file of dave/dst and GOROOT, unmodified).
func TestReplay(t *testing.T) {
	known.RunWitnesses(t, "C01", func(t h.TB, w known.Witness) {
		// witnesses are judged strictly (byte equality), whatever class they are in
		c := Case{Src: w.Input, Entry: 0}
		var out []byte
		var err error
		h.Guard(t, "Witness", c, func() { out, err = dsth.RoundTrip([]byte(w.Input), 0, 0, 0) })
		if err != nil || !bytes.Equal(out, []byte(w.Input)) {
			h.Fail(t, "Witness", c, "witness %s does not round-trip: %v %s", w.Name, err, oracle.FirstDiffLine([]byte(w.Input), out))
		}
	})
	known.RunRegressions(t, "C01")
	// corpus sweep
	files := gen.CorpusAll()
	stride := 1
	if os.Getenv("VERIF_TIER") != "thorough" {
		stride = 12
	}
	seedOff := 0
	fmt.Sscan(os.Getenv("VERIF_SEED"), &seedOff)
	n := 0
	for i := seedOff % stride; i < len(files); i += stride {
		src := gen.ReadCorpus(files[i])
		if !oracle.IsCanon(src) {
			continue
		}
		if _, _, err := oracle.Parse(src); err != nil {
			continue // format.Source accepts fragments (and empty files) that are not Go files
		}
		n++
		h.Eval("CorpusSweep")
		c := Case{Src: string(src), Entry: i % dsth.NumEntries, Pre: i % 3, Mode: i % dsth.NumModes, From: files[i]}
		checkRoundTrip("CorpusSweep")(t, c)
		if bytes.Contains(src, []byte("//")) {
			h.NonTrivial("CorpusSweep", files[i])
		}
	}
	h.Label(fmt.Sprintf("corpus-roots:%s", strings.Join(gen.CorpusRoots(), ",")))
	t.Logf("corpus sweep: %d canonical files", n)
}

func TestReplayFile(t *testing.T) { h.TestReplayEnv(t) }

// FuzzRoundTrip is the byte-level coverage-guided target (thorough tier): whatever go/parser
// accepts is brought to its gofmt fixpoint and must then round-trip byte for byte (inputs in the
// class of an open finding are judged by the weak comparison, as everywhere).
func FuzzRoundTrip(f *testing.F) {
	for _, s := range []string{
		"package p\n\nfunc f() {\n\t// c\n\tx := 1 /* d */\n\n\t// e\n}\n",
		"package p\n\nimport (\n\t\"a\"\n\n\t\"b\" // t\n)\n\nvar x = `a\nb` // c\n",
		"package p\n\ntype T struct {\n\ta int `t` // c\n\n\t// d\n\tb string\n}\n\nfunc (t T) M() {\n\tswitch x := y.(type) {\n\tcase int:\n\t\t// h\n\tdefault:\n\t}\n}\n",
		"//go:build x\n\n// Package p.\npackage p\n\n/*\nblock\n*/\nfunc f(a, b int, /* c */ c ...int) (r int) {\n\treturn f(\n\t\ta, // x\n\t\tb,\n\t)\n}\n",
		"package p\n\nfunc f() {\n\tselect {\n\tcase <-c:\n\t\t// only a comment\n\tcase x := <-d: // t\n\t\t_ = x\n\t}\n\tfor i := range x {\n\tL:\n\t\tgoto L\n\t}\n}\n",
	} {
		f.Add([]byte(s), uint8(0))
	}
	f.Fuzz(func(t *testing.T, data []byte, e uint8) {
		if len(data) > 4000 {
			return
		}
		src, fix, err := oracle.Canon(data)
		if err != nil || !fix {
			return
		}
		if !oracle.NodeStable(src) {
			return
		}
		h.Eval("Fuzz")
		checkRoundTrip("Fuzz")(t, Case{Src: string(src), Entry: int(e) % dsth.NumEntries, Mode: int(e) / 16, Pre: int(e) % 3})
	})
}
