// C08 — import management is transparent when nothing changes.
// Oracle: the input bytes; and the (Name, Path) annotation sequence after re-decorating the output.
package c08

import (
	"bytes"
	"fmt"
	"go/ast"
	"go/parser"
	"go/token"
	"sort"
	"strings"
	"testing"

	"github.com/dave/dst"
	"github.com/dave/dst/decorator"
	"github.com/dave/dst/decorator/resolver"
	"github.com/dave/dst/decorator/resolver/goast"
	"github.com/dave/dst/decorator/resolver/gotypes"
	"github.com/dave/dst/decorator/resolver/guess"
	"github.com/dave/dst/decorator/resolver/simple"
	"pgregory.net/rapid"

	"verif/internal/gen"
	"verif/internal/h"
	"verif/internal/known"
	"verif/internal/oracle"
)

func TestMain(m *testing.M) { h.Main(m, "C08") }

type Case struct {
	Libs    []gen.Lib         `json:"libs"`
	Root    map[string]string `json:"root"`
	DecRes  int               `json:"dec_resolver"`  // 0 gotypes, 1 goast.WithResolver(accurate)
	RestRes int               `json:"rest_resolver"` // 0 simple(accurate), 1 guess.WithMap(accurate)
	Pkg     bool              `json:"pkg,omitempty"` // all files are decorated as one *ast.Package by one DecorateNode call
}

func names(libs []gen.Lib) map[string]string {
	m := map[string]string{"example.com/root": "root", "example.com/other": "other"}
	for _, l := range libs {
		m[l.ImportPath] = l.Name
		m[l.FullPath] = l.Name
	}
	return m
}

type ann struct{ Name, Path string }

func annotations(f *dst.File) []ann {
	var out []ann
	dst.Inspect(f, func(n dst.Node) bool {
		if id, ok := n.(*dst.Ident); ok {
			out = append(out, ann{id.Name, id.Path})
		}
		return true
	})
	return out
}

func hasDot(src string) bool {
	f, err := parser.ParseFile(token.NewFileSet(), "", src, parser.ImportsOnly)
	if err != nil {
		return false
	}
	for _, is := range f.Imports {
		if is.Name != nil && is.Name.Name == "." {
			return true
		}
	}
	return false
}

func check(t h.TB, c Case) {
	const sub = "Transparent"
	p := &gen.Prog{Libs: c.Libs, Names: names(c.Libs)}
	imp, err := p.Importer()
	if err != nil {
		t.Fatalf("harness: %v", err)
	}
	ck, err := p.CheckSources(imp, "example.com/root", c.Root)
	if err != nil {
		t.Fatalf("harness: root does not type-check: %v", err)
	}
	var fnames []string
	for n := range c.Root {
		fnames = append(fnames, n)
	}
	sort.Strings(fnames)
	var rr resolver.RestorerResolver = simple.New(p.Names)
	if c.RestRes == 1 {
		rr = guess.WithMap(p.Names)
	}
	mkDec := func(fset *token.FileSet, uses bool, src string) *decorator.Decorator {
		if c.DecRes == 0 && uses {
			return decorator.NewDecoratorWithImports(fset, "example.com/root", gotypes.New(ck.Info.Uses))
		}
		return decorator.NewDecoratorWithImports(fset, "example.com/root", goast.WithResolver(simple.New(p.Names)))
	}
	res := decorator.NewRestorerWithImports("example.com/root", rr)
	var dpkg *dst.Package
	if c.Pkg {
		// every file of the package in one DecorateNode call: each file's identifiers must be
		// resolved against that file's own imports
		anyDot := false
		for _, fn := range fnames {
			anyDot = anyDot || hasDot(c.Root[fn])
		}
		var dec *decorator.Decorator
		if c.DecRes == 0 || anyDot {
			dec = decorator.NewDecoratorWithImports(ck.Fset, "example.com/root", gotypes.New(ck.Info.Uses))
		} else {
			dec = mkDec(ck.Fset, false, "")
		}
		var node dst.Node
		h.Guard(t, sub, c, func() { node, err = dec.DecorateNode(&ast.Package{Name: "root", Files: ck.Files}) })
		if err != nil {
			h.Fail(t, sub, c, "DecorateNode(*ast.Package): %v", err)
		}
		dpkg = node.(*dst.Package)
	}
	for _, fn := range fnames {
		src := c.Root[fn]
		useTypes := c.DecRes == 0 || hasDot(src) // the syntax-only resolver refuses dot-imports (C09)
		var df *dst.File
		if dpkg != nil {
			df = dpkg.Files[fn]
			if df == nil {
				h.Fail(t, sub, c, "file %s missing from the decorated package", fn)
			}
		} else {
			var dec *decorator.Decorator
			if useTypes {
				dec = decorator.NewDecoratorWithImports(ck.Fset, "example.com/root", gotypes.New(ck.Info.Uses))
			} else {
				dec = mkDec(ck.Fset, false, src)
			}
			h.Guard(t, sub, c, func() { df, err = dec.DecorateFile(ck.Files[fn]) })
			if err != nil {
				h.Fail(t, sub, c, "DecorateFile(%s): %v", fn, err)
			}
		}
		before := annotations(df)
		var buf bytes.Buffer
		h.Guard(t, sub, c, func() { err = res.Fprint(&buf, df) })
		if err != nil {
			h.Fail(t, sub, c, "restore of unedited %s failed: %v", fn, err)
		}
		if buf.String() != src {
			cls := known.LayoutClass([]byte(src))
			if cls == "" {
				h.Fail(t, sub, c, "%s is not reproduced byte for byte: %s\n--- got ---\n%s", fn, oracle.FirstDiffLine([]byte(src), buf.Bytes()), buf.String())
			}
			h.KnownHit(cls)
			if d := known.WeakDiff([]byte(src), buf.Bytes()); d != "" {
				h.Fail(t, sub, c, "%s (class %s) changed beyond layout: %s", fn, cls, d)
			}
			continue
		}
		// re-decorating the printed output gives every identifier the same annotation
		if !hasDot(src) {
			fset2 := token.NewFileSet()
			af2, err := parser.ParseFile(fset2, fn, buf.Bytes(), parser.ParseComments)
			if err != nil {
				h.Fail(t, sub, c, "output of %s does not parse: %v", fn, err)
			}
			d2 := decorator.NewDecoratorWithImports(fset2, "example.com/root", goast.WithResolver(simple.New(p.Names)))
			df2, err := d2.DecorateFile(af2)
			if err != nil {
				h.Fail(t, sub, c, "re-decorating the output of %s: %v", fn, err)
			}
			after := annotations(df2)
			if fmt.Sprint(before) != fmt.Sprint(after) {
				for i := range before {
					if i >= len(after) || before[i] != after[i] {
						h.Fail(t, sub, c, "%s: identifier %d annotated %v before, %v after the round trip", fn, i, before[i], at(after, i))
					}
				}
				h.Fail(t, sub, c, "%s: %d identifiers before, %d after", fn, len(before), len(after))
			}
		}
	}
}

func at(a []ann, i int) interface{} {
	if i < len(a) {
		return a[i]
	}
	return "<none>"
}

func genCase(t *rapid.T) (Case, bool) {
	const sub = "Transparent"
	p := gen.GenProg(t, 1, 2)
	c := Case{Libs: p.Libs, Root: map[string]string{}, DecRes: rapid.IntRange(0, 1).Draw(t, "dec"), RestRes: rapid.IntRange(0, 1).Draw(t, "rest")}
	imp, err := p.Importer()
	if err != nil {
		h.Exclude("libraries do not type-check")
		return c, false
	}
	npaths, dotAdjacent := 0, false
	rs := p.RootSources("example.com/root")
	var rnames []string
	for name := range rs {
		rnames = append(rnames, name)
	}
	sort.Strings(rnames)
	c.Pkg = len(rnames) > 1 && rapid.IntRange(0, 2).Draw(t, "pkg") == 0
	if c.Pkg {
		h.Label("decorated-as-one-package")
	}
	for _, name := range rnames {
		src := rs[name]
		if rapid.IntRange(0, 5).Draw(t, "emptyimport") == 0 {
			// an empty import declaration (legal, kept by gofmt), in front of or behind the others
			if i := strings.Index(src, "\n\n"); i >= 0 && rapid.Bool().Draw(t, "front") {
				src = src[:i+2] + "import ()\n\n" + src[i+2:]
			} else if j := strings.LastIndex(src, "\nimport "); j >= 0 {
				if k := strings.Index(src[j+1:], "\n\n"); k >= 0 && !strings.Contains(src[j+1:j+1+k], "(") {
					src = src[:j+1+k+1] + "import ()\n" + src[j+1+k+1:]
				}
			}
			if strings.Contains(src, "import ()") {
				h.Label("empty-import-declaration")
			}
		}
		inj, kinds := gen.Inject(t, []byte(src), gen.LayoutOpts{Max: 8, NoBuildTags: true})
		cs, fix, err := oracle.Canon(inj)
		if err != nil || !fix {
			h.Exclude("gofmt not idempotent / unparseable")
			return c, false
		}
		c.Root[name] = string(cs)
		for _, k := range kinds {
			h.Label("inject:" + k)
		}
		npaths += strings.Count(string(cs), ".F") + strings.Count(string(cs), ".T") + strings.Count(string(cs), ".V")
		// a comment or line break next to the dot of a qualified identifier
		for _, pat := range []string{"*/.", "./*", ".\n", "\n\t.", ". //", "*/ ."} {
			if strings.Contains(string(cs), pat) {
				dotAdjacent = true
			}
		}
	}
	if _, err := p.CheckSources(imp, "example.com/root", c.Root); err != nil {
		h.Exclude("injected line break changed the program (no longer type-checks)")
		return c, false
	}
	if dotAdjacent {
		h.Label("decoration-adjacent-to-dot")
	}
	if npaths >= 3 && dotAdjacent {
		var key []string
		for n, s := range c.Root {
			key = append(key, n+s)
		}
		sort.Strings(key)
		h.NonTrivial(sub, strings.Join(key, "\x00"), fmt.Sprint(c.DecRes, c.RestRes, c.Pkg))
	}
	var first string
	for _, s := range c.Root {
		first = s
		break
	}
	h.Sample(sub, map[string]any{"dec_resolver": []string{"gotypes", "goast.WithResolver(accurate)"}[c.DecRes], "rest_resolver": []string{"simple", "guess.WithMap"}[c.RestRes], "one_file": h.Trunc(first, 500)})
	return c, true
}

var prop = h.Prop("Transparent", genCase, check)

func TestPropTransparent(t *testing.T) { rapid.Check(t, prop) }

// dotLayouts: every way of placing comments / line breaks around the dot of a qualified identifier.
func TestReplay(t *testing.T) {
	known.RunWitnesses(t, "C08", func(t h.TB, w known.Witness) {
		checkPlain(t, "Witness", w.Input, true)
	})
	known.RunRegressions(t, "C08")
	pieces := []string{"", "/*a*/", " /*a*/ ", "// a\n", "\n", "/*a*/ // b\n", "\n// a\n", "\n\n"}
	n := 0
	for _, beforeDot := range pieces[:3] {
		for _, afterDot := range pieces {
			for _, beforeX := range pieces[:3] {
				for _, afterSel := range pieces[:3] {
					src := "package root\n\nimport \"fmt\"\n\nfunc f() {\n\t_ = " + beforeX + "fmt" + beforeDot + "." + afterDot + "Sprint" + afterSel + "\n}\n"
					cs, fix, err := oracle.Canon([]byte(src))
					if err != nil || !fix {
						continue
					}
					n++
					h.Eval("DotLayouts")
					checkPlain(t, "DotLayouts", string(cs), false)
					h.NonTrivial("DotLayouts", string(cs))
				}
			}
		}
	}
	t.Logf("dot layouts: %d", n)
	// qualified identifiers as elements of multi-line lists, with comments around them
	n = 0
	for _, open := range []string{"f(", "[]interface{}{", "T{"} {
		closer := map[string]string{"f(": ")", "[]interface{}{": "}", "T{": "}"}[open]
		for _, before := range []string{"", "\t// b\n", "/*b*/ "} {
			for _, trailing := range []string{"", " // t", " /*t*/"} {
				for _, after := range []string{"", "\t// a\n", "\n\t// a\n", "\t/* a */\n"} { // indented like the elements: a comment in the closer's column is the KF-1 class
					for _, last := range []bool{true, false} {
						elems := "a,\n"
						q := before + "fmt.Sprint," + trailing + "\n" + after
						if last {
							elems += q
						} else {
							elems = q + elems
						}
						src := "package root\n\nimport \"fmt\"\n\nvar x = " + open + "\n" + elems + closer + "\n"
						cs, fix, err := oracle.Canon([]byte(src))
						if err != nil || !fix {
							continue
						}
						n++
						h.Eval("ListLayouts")
						checkPlain(t, "ListLayouts", string(cs), true)
						h.NonTrivial("ListLayouts", string(cs))
					}
				}
			}
		}
	}
	t.Logf("list layouts: %d", n)
	// cgo: the "C" import alone, grouped with other imports, with and without a preamble
	for i, src := range []string{
		"package root\n\n/*\n#include <stdio.h>\n*/\nimport \"C\"\n\nimport \"fmt\"\n\nfunc f() {\n\tfmt.Println(C.x)\n}\n",
		"package root\n\n// #include <stdio.h>\nimport \"C\"\n\nfunc f() {\n\t_ = C.x\n}\n",
		"package root\n\nimport (\n\t\"fmt\"\n\n\t/*\n\t   #include <stdio.h>\n\t*/\n\t\"C\"\n)\n\nfunc f() {\n\tfmt.Println(C.x)\n}\n",
		"package root\n\nimport (\n\t\"C\"\n\t\"fmt\"\n\t\"os\"\n)\n\nfunc f() {\n\tfmt.Println(C.x, os.Args)\n}\n",
		"package root\n\nimport \"C\"\n\nimport (\n\t\"fmt\"\n\t\"os\"\n)\n\nfunc f() {\n\tfmt.Println(C.x, os.Args)\n}\n",
		"package root\n\nimport (\n\t\"C\"\n)\n\nfunc f() {\n\t_ = C.x\n}\n",
	} {
		cs, fix, err := oracle.Canon([]byte(src))
		if err != nil || !fix {
			t.Fatalf("harness: cgo case %d: %v", i, err)
		}
		h.Eval("Cgo")
		checkPlain(t, "Cgo", string(cs), false)
		h.NonTrivial("Cgo", string(cs))
	}
}

// checkPlain round-trips one stand-alone file with goast + guess resolvers. strict ignores the
// known-finding classes (witnesses are judged by byte equality).
func checkPlain(t h.TB, sub, src string, strict bool) {
	fset := token.NewFileSet()
	af, err := parser.ParseFile(fset, "a.go", src, parser.ParseComments)
	if err != nil {
		t.Fatalf("harness: %v", err)
	}
	dec := decorator.NewDecoratorWithImports(fset, "root", goast.New())
	var df *dst.File
	h.Guard(t, sub, src, func() { df, err = dec.DecorateFile(af) })
	if err != nil {
		h.Fail(t, sub, src, "DecorateFile: %v", err)
	}
	var buf bytes.Buffer
	h.Guard(t, sub, src, func() { err = decorator.NewRestorerWithImports("root", guess.New()).Fprint(&buf, df) })
	if err != nil {
		h.Fail(t, sub, src, "Fprint: %v", err)
	}
	if buf.String() != src {
		if cls := known.LayoutClass([]byte(src)); cls != "" && !strict {
			h.KnownHit(cls)
			return
		}
		h.Fail(t, sub, src, "not reproduced byte for byte: %s\n--- got ---\n%s", oracle.FirstDiffLine([]byte(src), buf.Bytes()), buf.String())
	}
}

func init() {
	h.RegisterReplay("ListLayouts", func(t h.TB, s string) { checkPlain(t, "ListLayouts", s, false) })
	h.RegisterReplay("Cgo", func(t h.TB, s string) { checkPlain(t, "Cgo", s, false) })
	h.RegisterReplay("DotLayouts", func(t h.TB, s string) { checkPlain(t, "DotLayouts", s, false) })
	h.RegisterReplay("Witness", func(t h.TB, s string) { checkPlain(t, "Witness", s, true) })
	_ = ast.NewIdent
}

func TestReplayFile(t *testing.T) { h.TestReplayEnv(t) }
