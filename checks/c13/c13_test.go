// C13 — Walk and Inspect visit every node exactly once, in source order.
// Oracle: go/ast's own traversal of the ast the tree was decorated from (differential), plus a
// reflection-based child enumeration that is independent of walk.go.
package c13

import (
	"fmt"
	"go/ast"
	"go/parser"
	"go/token"
	"os"
	"reflect"
	"sort"
	"strings"
	"testing"

	"github.com/dave/dst"
	"github.com/dave/dst/decorator"
	"pgregory.net/rapid"

	"verif/internal/dsth"
	"verif/internal/gen"
	"verif/internal/h"
	"verif/internal/known"
)

func TestMain(m *testing.M) { h.Main(m, "C13") }

type Case struct {
	Src    string `json:"src"`
	From   string `json:"from,omitempty"`
	Prune  []int  `json:"prune"`  // preorder ordinals (over non-comment nodes) at which the visitor declines
	Walker int    `json:"walker"` // 0 Inspect, 1 Walk with a Visitor that hands out a fresh visitor per level
}

func isComment(n ast.Node) bool {
	switch n.(type) {
	case *ast.Comment, *ast.CommentGroup:
		return true
	}
	return false
}

// astSeq is the reference: go/ast.Inspect over the source ast, comments dropped, with pruning.
func astSeq(root ast.Node, prune map[int]bool) (seq []ast.Node) {
	ord := 0
	ast.Inspect(root, func(n ast.Node) bool {
		if n == nil {
			seq = append(seq, nil)
			return true
		}
		if isComment(n) {
			// comment nodes have no dst counterpart: skip the subtree and also the nil that
			// Inspect would deliver for it (none is delivered when false is returned)
			return false
		}
		seq = append(seq, n)
		ord++
		return !prune[ord-1]
	})
	return
}

// levelVisitor hands out a fresh visitor (depth+1) for the children of every node and records
// which visitor receives each call: go/ast delivers the closing Visit(nil) to the visitor that
// Visit(node) returned.
type levelVisitor struct {
	seq    *[]dst.Node
	depths *[]int
	ord    *int
	prune  map[int]bool
	depth  int
}

func (v levelVisitor) Visit(n dst.Node) dst.Visitor {
	*v.depths = append(*v.depths, v.depth)
	if n == nil {
		*v.seq = append(*v.seq, nil)
		return nil
	}
	*v.seq = append(*v.seq, n)
	*v.ord++
	if v.prune[*v.ord-1] {
		return nil
	}
	return levelVisitor{v.seq, v.depths, v.ord, v.prune, v.depth + 1}
}

type astLevelVisitor struct {
	seq    *[]ast.Node
	depths *[]int
	ord    *int
	prune  map[int]bool
	depth  int
}

func (v astLevelVisitor) Visit(n ast.Node) ast.Visitor {
	if n != nil && isComment(n) {
		return nil
	}
	*v.depths = append(*v.depths, v.depth)
	if n == nil {
		*v.seq = append(*v.seq, nil)
		return nil
	}
	*v.seq = append(*v.seq, n)
	*v.ord++
	if v.prune[*v.ord-1] {
		return nil
	}
	return astLevelVisitor{v.seq, v.depths, v.ord, v.prune, v.depth + 1}
}

// astWalkSeq is the reference for the Visitor API: go/ast.Walk with per-level visitors.
func astWalkSeq(root ast.Node, prune map[int]bool) (seq []ast.Node, depths []int) {
	ord := 0
	ast.Walk(astLevelVisitor{&seq, &depths, &ord, prune, 0}, root)
	return
}

func dstSeq(root dst.Node, prune map[int]bool, walker int) (seq []dst.Node, depths []int) {
	ord := 0
	if walker == 0 {
		dst.Inspect(root, func(n dst.Node) bool {
			if n == nil {
				seq = append(seq, nil)
				return true
			}
			seq = append(seq, n)
			ord++
			return !prune[ord-1]
		})
		return
	}
	dst.Walk(levelVisitor{&seq, &depths, &ord, prune, 0}, root)
	return
}

var nodeIface = reflect.TypeOf((*dst.Node)(nil)).Elem()

// reflectChildren lists the non-nil node-typed children of n through its struct fields.
func reflectChildren(n dst.Node) map[dst.Node]bool {
	out := map[dst.Node]bool{}
	v := reflect.ValueOf(n).Elem()
	add := func(x reflect.Value) {
		if (x.Kind() == reflect.Ptr || x.Kind() == reflect.Interface) && !x.IsNil() {
			if nd, ok := x.Interface().(dst.Node); ok {
				out[nd] = true
			}
		}
	}
	for i := 0; i < v.NumField(); i++ {
		f := v.Type().Field(i)
		switch f.Name {
		case "Obj", "Scope", "Decs", "Imports", "Unresolved":
			continue
		}
		fv := v.Field(i)
		switch fv.Kind() {
		case reflect.Ptr, reflect.Interface:
			if f.Type.Implements(nodeIface) || f.Type.Kind() == reflect.Interface {
				add(fv)
			}
		case reflect.Slice:
			for j := 0; j < fv.Len(); j++ {
				add(fv.Index(j))
			}
		case reflect.Map:
			for _, k := range fv.MapKeys() {
				add(fv.MapIndex(k))
			}
		}
	}
	return out
}

func at(xs []int, i int) int {
	if i < len(xs) {
		return xs[i]
	}
	return -1
}

func check(sub string) func(t h.TB, c Case) {
	return func(t h.TB, c Case) {
		fset := token.NewFileSet()
		af, err := parser.ParseFile(fset, "x.go", c.Src, parser.ParseComments)
		if err != nil {
			t.Fatalf("harness: %v", err)
		}
		dec := decorator.NewDecorator(fset)
		var df *dst.File
		h.Guard(t, sub, c, func() { df, err = dec.DecorateFile(af) })
		if err != nil {
			h.Fail(t, sub, c, "DecorateFile: %v", err)
		}
		prune := map[int]bool{}
		for _, p := range c.Prune {
			prune[p] = true
		}
		want := astSeq(af, prune)
		var wantDepths []int
		if c.Walker == 1 {
			want, wantDepths = astWalkSeq(af, prune)
		}
		var got []dst.Node
		var gotDepths []int
		h.Guard(t, sub, c, func() { got, gotDepths = dstSeq(df, prune, c.Walker) })
		if c.Walker == 1 && fmt.Sprint(wantDepths) != fmt.Sprint(gotDepths) {
			for i := range wantDepths {
				if i >= len(gotDepths) || wantDepths[i] != gotDepths[i] {
					h.Fail(t, sub, c, "Walk: call %d is delivered to the visitor of level %d, go/ast.Walk delivers it to level %d (each Visit returns a fresh visitor for the children and expects the closing Visit(nil) itself)", i, at(gotDepths, i), wantDepths[i])
				}
			}
			h.Fail(t, sub, c, "Walk: %d visitor calls, go/ast.Walk makes %d", len(gotDepths), len(wantDepths))
		}
		if len(want) != len(got) {
			h.Fail(t, sub, c, "visit sequence length: dst %d, go/ast %d (pruned ordinals %v)", len(got), len(want), c.Prune)
		}
		seen := map[dst.Node]bool{}
		for i := range want {
			if (want[i] == nil) != (got[i] == nil) {
				h.Fail(t, sub, c, "event %d: go/ast %T, dst %T", i, want[i], got[i])
			}
			if want[i] == nil {
				continue
			}
			if dec.Dst.Nodes[want[i]] != got[i] {
				h.Fail(t, sub, c, "event %d: go/ast visits %T at %v, dst visits %T which is not its counterpart", i, want[i], fset.Position(want[i].Pos()), got[i])
			}
			if seen[got[i]] {
				h.Fail(t, sub, c, "node %T visited twice", got[i])
			}
			seen[got[i]] = true
		}
		// (2) independent of go/ast: directly visited children == node-typed fields (reflection)
		if len(c.Prune) == 0 {
			var stack []dst.Node
			children := map[dst.Node]map[dst.Node]bool{}
			dst.Inspect(df, func(n dst.Node) bool {
				if n == nil {
					stack = stack[:len(stack)-1]
					return true
				}
				if len(stack) > 0 {
					p := stack[len(stack)-1]
					if children[p] == nil {
						children[p] = map[dst.Node]bool{}
					}
					children[p][n] = true
				}
				stack = append(stack, n)
				return true
			})
			for n := range seen {
				want := reflectChildren(n)
				got := children[n]
				if len(want) != len(got) {
					h.Fail(t, sub, c, "%T: Walk visits %d children, the struct has %d node-typed fields set", n, len(got), len(want))
				}
				for k := range want {
					if !got[k] {
						h.Fail(t, sub, c, "%T: child %T reachable through a struct field is not visited", n, k)
					}
				}
			}
		}
	}
}

func genCase(sub string) func(t *rapid.T) (Case, bool) {
	return func(t *rapid.T) (Case, bool) {
		var src []byte
		from := "G-SYN"
		if rapid.IntRange(0, 3).Draw(t, "src") == 0 {
			from, src = gen.CorpusFile(t)
		} else {
			raw, kinds := gen.SynFile(t, rapid.IntRange(10, 250).Draw(t, "size"))
			for k := range kinds {
				h.Label("syn:" + k)
			}
			src, _ = gen.Inject(t, []byte(raw), gen.LayoutOpts{Max: 4})
		}
		fset := token.NewFileSet()
		af, err := parser.ParseFile(fset, "", src, parser.ParseComments)
		if err != nil {
			h.Exclude("base does not parse")
			return Case{}, false
		}
		total := 0
		kinds := map[string]bool{}
		ast.Inspect(af, func(n ast.Node) bool {
			if n == nil || isComment(n) {
				return false
			}
			total++
			kinds[fmt.Sprintf("%T", n)] = true
			return true
		})
		c := Case{Src: string(src), From: from, Walker: rapid.IntRange(0, 1).Draw(t, "walker")}
		np := rapid.IntRange(0, 6).Draw(t, "nprune")
		for i := 0; i < np; i++ {
			c.Prune = append(c.Prune, rapid.IntRange(0, total-1).Draw(t, "prune"))
		}
		sort.Ints(c.Prune)
		for k := range kinds {
			h.Label("kind:" + strings.TrimPrefix(k, "*ast."))
		}
		if len(kinds) >= 15 && len(c.Prune) > 0 {
			h.NonTrivial(sub, c.Src, fmt.Sprint(c.Prune), fmt.Sprint(c.Walker))
		}
		h.Sample(sub, map[string]any{"from": from, "nodes": total, "kinds": len(kinds), "prune": c.Prune, "walker": c.Walker})
		return c, true
	}
}

var prop = h.Prop("Differential", genCase("Differential"), check("Differential"))

func TestPropDifferential(t *testing.T) { rapid.Check(t, prop) }

// PkgCase checks the Package node: every file walked once (go/ast gives no order guarantee, so
// per-file sequences are compared as a set).
type PkgCase struct {
	Files map[string]string `json:"files"`
}

func checkPkg(t h.TB, c PkgCase) {
	const sub = "Package"
	fset := token.NewFileSet()
	apkg := &ast.Package{Name: "p", Files: map[string]*ast.File{}}
	for name, src := range c.Files {
		af, err := parser.ParseFile(fset, name, src, parser.ParseComments)
		if err != nil {
			t.Fatalf("harness: %v", err)
		}
		apkg.Files[name] = af
	}
	dec := decorator.NewDecorator(fset)
	var dn dst.Node
	var err error
	h.Guard(t, sub, c, func() { dn, err = dec.DecorateNode(apkg) })
	if err != nil {
		h.Fail(t, sub, c, "DecorateNode(package): %v", err)
	}
	dpkg := dn.(*dst.Package)
	visited := map[dst.Node]int{}
	first := true
	h.Guard(t, sub, c, func() {
		dst.Inspect(dpkg, func(n dst.Node) bool {
			if n != nil {
				if first && n != dst.Node(dpkg) {
					h.Fail(t, sub, c, "first node visited is %T, not the package", n)
				}
				first = false
				visited[n]++
			}
			return true
		})
	})
	for name, af := range apkg.Files {
		df := dpkg.Files[name]
		if df == nil || dec.Dst.Nodes[af] != dst.Node(df) {
			h.Fail(t, sub, c, "file %s missing from dst.Package.Files", name)
		}
		for _, n := range dsth.Nodes(df) {
			if visited[n] != 1 {
				h.Fail(t, sub, c, "node %T of file %s visited %d times through the package", n, name, visited[n])
			}
		}
	}
}

func genPkg(t *rapid.T) (PkgCase, bool) {
	c := PkgCase{Files: map[string]string{}}
	n := rapid.IntRange(1, 4).Draw(t, "nfiles")
	for i := 0; i < n; i++ {
		raw, _ := gen.SynFile(t, rapid.IntRange(5, 60).Draw(t, "size"))
		if _, err := parser.ParseFile(token.NewFileSet(), "", raw, 0); err != nil {
			h.Exclude("base does not parse")
			return c, false
		}
		c.Files[fmt.Sprintf("f%d.go", i)] = raw
	}
	if n >= 2 {
		var keys []string
		for k, v := range c.Files {
			keys = append(keys, k+v)
		}
		sort.Strings(keys)
		h.NonTrivial("Package", keys...)
	}
	h.Sample("Package", map[string]any{"files": n})
	return c, true
}

var propPkg = h.Prop("Package", genPkg, checkPkg)

func TestPropPackage(t *testing.T) { rapid.Check(t, propPkg) }

func TestReplay(t *testing.T) {
	known.RunRegressions(t, "C13")
	files := gen.CorpusAll()
	stride := 1
	if os.Getenv("VERIF_TIER") != "thorough" {
		stride = 10
	}
	off := 0
	fmt.Sscan(os.Getenv("VERIF_SEED"), &off)
	for i := off % stride; i < len(files); i += stride {
		src := gen.ReadCorpus(files[i])
		if _, err := parser.ParseFile(token.NewFileSet(), "", src, parser.ParseComments); err != nil {
			continue
		}
		h.Eval("CorpusSweep")
		check("CorpusSweep")(t, Case{Src: string(src), From: files[i], Walker: i % 2})
		check("CorpusSweep")(t, Case{Src: string(src), From: files[i], Walker: i % 2, Prune: []int{3, 7, 20, 50, 51}})
		h.NonTrivial("CorpusSweep", files[i])
	}
}

func init() { h.RegisterReplay("CorpusSweep", check("CorpusSweep")) }

func TestReplayFile(t *testing.T) { h.TestReplayEnv(t) }
