// C02 — comments and spacing travel with their node when sibling lists are edited.
// Oracle: a text model: the source is built from chunks (element + its directly preceding
// comment lines + its trailing same-line comment); the edit script is applied to the node slices
// and to the chunk slices in lock-step; gofmt of the re-assembled text must equal the print.
package c02

import (
	"bytes"
	"fmt"
	"go/token"
	"reflect"
	"strings"
	"testing"

	"github.com/dave/dst"
	"github.com/dave/dst/decorator"
	"github.com/dave/dst/decorator/resolver/goast"
	"github.com/dave/dst/decorator/resolver/guess"
	"pgregory.net/rapid"

	"verif/internal/dsth"
	"verif/internal/h"
	"verif/internal/known"
	"verif/internal/oracle"
)

func TestMain(m *testing.M) { h.Main(m, "C02") }

// Chunk describes one element of a list.
type Chunk struct {
	ID       string `json:"id"`
	Lead     int    `json:"lead"`     // number of own-line comments directly above
	Trail    bool   `json:"trail"`    // trailing same-line comment
	Multi    bool   `json:"multi"`    // multi-line element (where the kind has one)
	Inner    bool   `json:"inner"`    // an inline /* */ comment inside the element
	BlockCmt bool   `json:"blockcmt"` // the leading comments are /* */ instead of //
}

// Op is one edit, applied to list L (0 = A, 1 = B).
type Op struct {
	Kind string `json:"kind"` // swap | delete | dup | move
	L    int    `json:"l"`
	I    int    `json:"i"`
	J    int    `json:"j"`
}

type Case struct {
	Extras   bool    `json:"extras"`   // print with Restorer{Extras: true} (objects and scopes restored too)
	Interior bool    `json:"interior"` // the ends of the lists are special in this layout (see genCase): edits touch interior positions only
	Kind     string  `json:"kind"`
	Layout   string  `json:"layout"` // tight | airy | natural | irregular
	A        []Chunk `json:"a"`
	B        []Chunk `json:"b"`
	Blanks   []bool  `json:"blanks"` // irregular layout: blank line before chunk k (A then B)
	Ops      []Op    `json:"ops"`
}

type kind struct {
	name     string
	twoLists bool
	wrap     func(a, b string) string           // assembles the file from the two list bodies
	elem     func(c Chunk) (first, rest string) // element text: first line (without trailing comment) and remaining lines
	lists    func(f *dst.File) []reflect.Value  // settable slice values of list A (and B)
	sep      string                             // text appended to the element before the trailing comment ("," for expression lists)
	imports  bool                               // decorate / restore with import management (qualified identifiers as elements)
}

func fieldOf(n interface{}, name string) reflect.Value {
	return reflect.ValueOf(n).Elem().FieldByName(name)
}

var kinds = map[string]kind{
	"stmts": {"stmts", true,
		func(a, b string) string { return "package p\n\nfunc fa() {\n" + a + "}\n\nfunc fb() {\n" + b + "}\n" },
		func(c Chunk) (string, string) {
			in := ""
			if c.Inner {
				in = "/*I-" + c.ID + "*/ "
			}
			if c.Multi {
				return "if " + in + "c" + c.ID + " {", "t" + c.ID + "()\n}"
			}
			return "s" + c.ID + "(" + in + "1)", ""
		},
		func(f *dst.File) []reflect.Value {
			return []reflect.Value{fieldOf(f.Decls[0].(*dst.FuncDecl).Body, "List"), fieldOf(f.Decls[1].(*dst.FuncDecl).Body, "List")}
		}, "", false},
	"decls": {"decls", false,
		func(a, b string) string { return "package p\n\n" + a },
		func(c Chunk) (string, string) {
			if c.Multi {
				return "func d" + c.ID + "() {", "x" + c.ID + "()\n}"
			}
			return "var v" + c.ID + " int", ""
		},
		func(f *dst.File) []reflect.Value { return []reflect.Value{fieldOf(f, "Decls")} }, "", false},
	"specs": {"specs", true,
		func(a, b string) string { return "package p\n\nvar (\n" + a + ")\n\nvar (\n" + b + ")\n" },
		func(c Chunk) (string, string) {
			in := ""
			if c.Inner {
				in = " /*I-" + c.ID + "*/"
			}
			if c.Multi {
				return "v" + c.ID + in + " = f(", "1,\n2,\n)"
			}
			return "v" + c.ID + in + " = 1", ""
		},
		func(f *dst.File) []reflect.Value {
			return []reflect.Value{fieldOf(f.Decls[0].(*dst.GenDecl), "Specs"), fieldOf(f.Decls[1].(*dst.GenDecl), "Specs")}
		}, "", false},
	"fields": {"fields", true,
		func(a, b string) string {
			return "package p\n\ntype SA struct {\n" + a + "}\n\ntype SB struct {\n" + b + "}\n"
		},
		func(c Chunk) (string, string) {
			if c.Multi {
				return "f" + c.ID + " struct {", "x int\n}"
			}
			return "f" + c.ID + " int", ""
		},
		func(f *dst.File) []reflect.Value {
			return []reflect.Value{
				fieldOf(f.Decls[0].(*dst.GenDecl).Specs[0].(*dst.TypeSpec).Type.(*dst.StructType).Fields, "List"),
				fieldOf(f.Decls[1].(*dst.GenDecl).Specs[0].(*dst.TypeSpec).Type.(*dst.StructType).Fields, "List")}
		}, "", false},
	"methods": {"methods", true,
		func(a, b string) string {
			return "package p\n\ntype IA interface {\n" + a + "}\n\ntype IB interface {\n" + b + "}\n"
		},
		func(c Chunk) (string, string) { return "m" + c.ID + "()", "" },
		func(f *dst.File) []reflect.Value {
			return []reflect.Value{
				fieldOf(f.Decls[0].(*dst.GenDecl).Specs[0].(*dst.TypeSpec).Type.(*dst.InterfaceType).Methods, "List"),
				fieldOf(f.Decls[1].(*dst.GenDecl).Specs[0].(*dst.TypeSpec).Type.(*dst.InterfaceType).Methods, "List")}
		}, "", false},
	"elems": {"elems", true,
		func(a, b string) string {
			return "package p\n\nvar xa = []T{\n" + a + "}\n\nvar xb = []T{\n" + b + "}\n"
		},
		func(c Chunk) (string, string) {
			if c.Multi {
				return "{", "e" + c.ID + ",\n}"
			}
			return "e" + c.ID, ""
		},
		func(f *dst.File) []reflect.Value {
			return []reflect.Value{
				fieldOf(f.Decls[0].(*dst.GenDecl).Specs[0].(*dst.ValueSpec).Values[0].(*dst.CompositeLit), "Elts"),
				fieldOf(f.Decls[1].(*dst.GenDecl).Specs[0].(*dst.ValueSpec).Values[0].(*dst.CompositeLit), "Elts")}
		}, ",", false},
	"args": {"args", true,
		func(a, b string) string { return "package p\n\nvar xa = fa(\n" + a + ")\n\nvar xb = fb(\n" + b + ")\n" },
		func(c Chunk) (string, string) { return "a" + c.ID, "" },
		func(f *dst.File) []reflect.Value {
			return []reflect.Value{
				fieldOf(f.Decls[0].(*dst.GenDecl).Specs[0].(*dst.ValueSpec).Values[0].(*dst.CallExpr), "Args"),
				fieldOf(f.Decls[1].(*dst.GenDecl).Specs[0].(*dst.ValueSpec).Values[0].(*dst.CallExpr), "Args")}
		}, ",", false},
	"clauses": {"clauses", true,
		func(a, b string) string {
			return "package p\n\nfunc fa() {\n\tswitch x {\n" + a + "\t}\n}\n\nfunc fb() {\n\tswitch y {\n" + b + "\t}\n}\n"
		},
		func(c Chunk) (string, string) {
			if c.Multi {
				return "\tcase k" + c.ID + ":", "\t\t// body of k" + c.ID + " is only this comment" // an empty clause with a hanging comment (gofmt keeps a comment's column class, so the text carries real indentation)
			}
			return "case k" + c.ID + ":", "b" + c.ID + "()"
		},
		func(f *dst.File) []reflect.Value {
			return []reflect.Value{
				fieldOf(f.Decls[0].(*dst.FuncDecl).Body.List[0].(*dst.SwitchStmt).Body, "List"),
				fieldOf(f.Decls[1].(*dst.FuncDecl).Body.List[0].(*dst.SwitchStmt).Body, "List")}
		}, "", false},
	"comms": {"comms", true,
		func(a, b string) string {
			return "package p\n\nfunc fa() {\n\tselect {\n" + a + "\t}\n}\n\nfunc fb() {\n\tselect {\n" + b + "\t}\n}\n"
		},
		func(c Chunk) (string, string) {
			if c.Multi {
				return "\tcase <-k" + c.ID + ":", "\t\t// body of k" + c.ID + " is only this comment"
			}
			return "case v := <-k" + c.ID + ":", "b" + c.ID + "(v)"
		},
		func(f *dst.File) []reflect.Value {
			return []reflect.Value{
				fieldOf(f.Decls[0].(*dst.FuncDecl).Body.List[0].(*dst.SelectStmt).Body, "List"),
				fieldOf(f.Decls[1].(*dst.FuncDecl).Body.List[0].(*dst.SelectStmt).Body, "List")}
		}, "", false},
	"qelems": {"qelems", true,
		func(a, b string) string {
			return "package p\n\nimport \"io\"\n\nvar xa = []error{\n" + a + "}\n\nvar xb = []error{\n" + b + "}\n"
		},
		func(c Chunk) (string, string) { return "io.E" + c.ID, "" },
		func(f *dst.File) []reflect.Value {
			return []reflect.Value{
				fieldOf(f.Decls[1].(*dst.GenDecl).Specs[0].(*dst.ValueSpec).Values[0].(*dst.CompositeLit), "Elts"),
				fieldOf(f.Decls[2].(*dst.GenDecl).Specs[0].(*dst.ValueSpec).Values[0].(*dst.CompositeLit), "Elts")}
		}, ",", true},
	"qargs": {"qargs", true,
		func(a, b string) string {
			return "package p\n\nimport \"io\"\n\nvar xa = fa(\n" + a + ")\n\nvar xb = fb(\n" + b + ")\n"
		},
		func(c Chunk) (string, string) { return "io.A" + c.ID, "" },
		func(f *dst.File) []reflect.Value {
			return []reflect.Value{
				fieldOf(f.Decls[1].(*dst.GenDecl).Specs[0].(*dst.ValueSpec).Values[0].(*dst.CallExpr), "Args"),
				fieldOf(f.Decls[2].(*dst.GenDecl).Specs[0].(*dst.ValueSpec).Values[0].(*dst.CallExpr), "Args")}
		}, ",", true},
}

// text renders one chunk.
func (k kind) text(c Chunk) string {
	var sb strings.Builder
	if (k.name == "clauses" || k.name == "comms") && c.Multi {
		c.Trail = false // the body is a comment line: nothing can trail it
	}
	for i := 0; i < c.Lead; i++ {
		if c.BlockCmt {
			fmt.Fprintf(&sb, "/* L-%s-%d */\n", c.ID, i)
		} else {
			fmt.Fprintf(&sb, "// L-%s-%d\n", c.ID, i)
		}
	}
	first, rest := k.elem(c)
	if rest == "" {
		sb.WriteString(first + k.sep)
		if c.Trail {
			sb.WriteString(" // T-" + c.ID)
		}
		sb.WriteString("\n")
		return sb.String()
	}
	sb.WriteString(first + "\n")
	lines := strings.Split(rest, "\n")
	for i, l := range lines {
		sb.WriteString(l)
		if i == len(lines)-1 {
			if k.name != "clauses" && k.name != "comms" {
				sb.WriteString(k.sep)
			}
			if c.Trail {
				sb.WriteString(" // T-" + c.ID)
			}
		}
		sb.WriteString("\n")
	}
	return sb.String()
}

// body joins chunks according to the layout.
func (k kind) body(cs []Chunk, layout string, blanks []bool) string {
	var sb strings.Builder
	if layout == "airy" && len(cs) > 0 {
		sb.WriteString("\n")
	}
	for i, c := range cs {
		if i > 0 && (layout == "airy" || layout == "natural") {
			sb.WriteString("\n")
		}
		if layout == "irregular" && i < len(blanks) && blanks[i] && i > 0 {
			sb.WriteString("\n")
		}
		sb.WriteString(k.text(c))
	}
	if layout == "airy" && len(cs) > 0 {
		sb.WriteString("\n")
	}
	return sb.String()
}

func (k kind) file(a, b []Chunk, layout string, blanks []bool) string {
	var bb []bool
	if len(blanks) > len(a) {
		bb = blanks[len(a):]
	}
	return k.wrap(k.body(a, layout, blanks), k.body(b, layout, bb))
}

func applyChunks(ls [][]Chunk, op Op) {
	l := ls[op.L]
	switch op.Kind {
	case "swap":
		l[op.I], l[op.J] = l[op.J], l[op.I]
	case "delete":
		ls[op.L] = append(l[:op.I:op.I], l[op.I+1:]...)
	case "dup":
		n := append([]Chunk{}, l[:op.J]...)
		n = append(n, l[op.I])
		ls[op.L] = append(n, l[op.J:]...)
	case "move":
		c := l[op.I]
		ls[op.L] = append(l[:op.I:op.I], l[op.I+1:]...)
		o := ls[1-op.L]
		n := append([]Chunk{}, o[:op.J]...)
		n = append(n, c)
		ls[1-op.L] = append(n, o[op.J:]...)
	}
}

func insertAt(v reflect.Value, j int, x reflect.Value) {
	n := reflect.MakeSlice(v.Type(), 0, v.Len()+1)
	n = reflect.AppendSlice(n, v.Slice(0, j))
	n = reflect.Append(n, x)
	n = reflect.AppendSlice(n, v.Slice(j, v.Len()))
	v.Set(n)
}

func deleteAt(v reflect.Value, i int) reflect.Value {
	x := v.Index(i).Elem()
	if v.Index(i).Kind() != reflect.Interface {
		x = v.Index(i)
	}
	n := reflect.MakeSlice(v.Type(), 0, v.Len())
	n = reflect.AppendSlice(n, v.Slice(0, i))
	n = reflect.AppendSlice(n, v.Slice(i+1, v.Len()))
	v.Set(n)
	return x
}

func applyNodes(ls []reflect.Value, op Op) {
	l := ls[op.L]
	switch op.Kind {
	case "swap":
		a, b := reflect.ValueOf(l.Index(op.I).Interface()), reflect.ValueOf(l.Index(op.J).Interface())
		l.Index(op.I).Set(b)
		l.Index(op.J).Set(a)
	case "delete":
		deleteAt(l, op.I)
	case "dup":
		cl := dst.Clone(l.Index(op.I).Interface().(dst.Node))
		insertAt(l, op.J, reflect.ValueOf(cl))
	case "move":
		x := reflect.ValueOf(l.Index(op.I).Interface())
		deleteAt(l, op.I)
		insertAt(ls[1-op.L], op.J, x)
	}
}

func check(t h.TB, c Case) {
	const sub = "Edit"
	k := kinds[c.Kind]
	if c.Kind == "clauses" || c.Kind == "comms" {
		// a clause whose body is only a comment cannot have a trailing same-line comment
		for _, l := range [][]Chunk{c.A, c.B} {
			for i := range l {
				if l[i].Multi {
					l[i].Trail = false
				}
			}
		}
	}
	src0 := k.file(c.A, c.B, c.Layout, c.Blanks)
	src, fix, err := oracle.Canon([]byte(src0))
	if err != nil {
		t.Fatalf("harness: template does not parse: %v\n%s", err, src0)
	}
	if !fix {
		h.Exclude("gofmt not idempotent on the template")
		return
	}
	parse := func() (*dst.File, error) {
		if k.imports {
			return decorator.NewDecoratorWithImports(token.NewFileSet(), "p", goast.New()).Parse(src)
		}
		return decorator.Parse(src)
	}
	f, err := parse()
	if err != nil {
		t.Fatalf("harness: %v", err)
	}
	// the empty edit script: every template of this family round-trips on the pinned tree (no
	// exclusion in any run), so a failure here is reported rather than excluded — an exclusion
	// would hide exactly the regressions that re-attach comments (lesson of section 3 of DESIGN.md)
	if un, err := printFile(f, false, k.imports); err != nil || !bytes.Equal(un, src) {
		h.Fail(t, sub, c, "the unedited file is not reproduced (comments are attached differently already before any edit): %v %s\n--- printed ---\n%s", err, oracle.FirstDiffLine(src, un), un)
	}
	f, _ = parse()
	lists := k.lists(f)
	chunks := [][]Chunk{append([]Chunk{}, c.A...), append([]Chunk{}, c.B...)}
	for _, op := range c.Ops {
		applyChunks(chunks, op)
		h.Guard(t, sub, c, func() { applyNodes(lists, op) })
	}
	var out []byte
	h.Guard(t, sub, c, func() { out, err = printFile(f, c.Extras, k.imports) })
	if err != nil {
		h.Fail(t, sub, c, "printing the edited tree failed: %v", err)
	}
	// (2) no comment lost, duplicated or re-attached — for every layout
	wantCount := map[string]int{}
	for _, l := range chunks {
		for _, ch := range l {
			wantCount[ch.ID]++
		}
	}
	lines := strings.Split(string(out), "\n")
	for _, l := range [][]Chunk{c.A, c.B} {
		for _, ch := range l {
			for i := 0; i < ch.Lead; i++ {
				tag := fmt.Sprintf("L-%s-%d ", ch.ID, i)
				if ch.BlockCmt {
					tag = fmt.Sprintf("L-%s-%d */", ch.ID, i)
				}
				tag2 := fmt.Sprintf("L-%s-%d", ch.ID, i)
				n := 0
				for li, ln := range lines {
					if strings.HasSuffix(strings.TrimSpace(ln), tag2) || strings.Contains(ln, tag) {
						n++
						// directly above its element: the next non-comment line mentions the element id
						j := li + 1
						for j < len(lines) && (strings.HasPrefix(strings.TrimSpace(lines[j]), "//") || strings.HasPrefix(strings.TrimSpace(lines[j]), "/*")) {
							j++
						}
						ok := false
						for d := 0; d < 3 && j+d < len(lines); d++ {
							ok = ok || mentions(lines[j+d], ch.ID) // (a multi-line element names itself on its 2nd or 3rd line)
						}
						if !ok {
							h.Fail(t, sub, c, "leading comment %s is no longer directly above its element (next code line: %q)\n%s", tag2, at(lines, j), out)
						}
					}
				}
				if n != wantCount[ch.ID] {
					h.Fail(t, sub, c, "leading comment %s occurs %d times, its element %d times\n%s", tag2, n, wantCount[ch.ID], out)
				}
			}
			if ch.Trail {
				tag := "// T-" + ch.ID
				n := 0
				for _, ln := range lines {
					if strings.HasSuffix(ln, tag) {
						n++
						code := strings.TrimSpace(strings.TrimSuffix(ln, tag))
						if code == "" {
							h.Fail(t, sub, c, "trailing comment %s is on a line of its own\n%s", tag, out)
						}
						if !mentions(ln, ch.ID) && !strings.HasPrefix(code, "}") && !strings.HasPrefix(code, ")") && !strings.HasPrefix(code, "2,") {
							h.Fail(t, sub, c, "trailing comment %s sits on the line of another element: %q\n%s", tag, ln, out)
						}
					}
				}
				if n != wantCount[ch.ID] {
					h.Fail(t, sub, c, "trailing comment %s occurs %d times, its element %d times\n%s", tag, n, wantCount[ch.ID], out)
				}
			}
			if ch.Inner && strings.Contains(k.text(ch), "/*I-") {
				if n := strings.Count(string(out), "/*I-"+ch.ID+"*/"); n != wantCount[ch.ID] {
					h.Fail(t, sub, c, "inner comment of %s occurs %d times, its element %d times\n%s", ch.ID, n, wantCount[ch.ID], out)
				}
			}
		}
	}
	// (1) byte equality with gofmt of the re-assembled chunks — for the uniform layouts
	if c.Layout == "irregular" {
		return
	}
	want, _, err := oracle.Canon([]byte(k.file(chunks[0], chunks[1], c.Layout, nil)))
	if err != nil {
		t.Fatalf("harness: re-assembled text does not parse: %v", err)
	}
	if !bytes.Equal(out, want) {
		h.Fail(t, sub, c, "printed tree differs from gofmt of the re-assembled chunks: %s\n--- expected ---\n%s--- printed ---\n%s", oracle.FirstDiffLine(want, out), want, out)
	}
}

func at(l []string, i int) string {
	if i < len(l) {
		return l[i]
	}
	return "<eof>"
}

// mentions reports whether a code line contains the identifier of element id (s<id>, v<id> ...).
func mentions(line, id string) bool {
	for _, p := range []string{"s", "c", "v", "d", "f", "m", "e", "a", "k", "t", "x", "b", "E", "A"} {
		i := strings.Index(line, p+id)
		for i >= 0 {
			end := i + len(p+id)
			if end >= len(line) || !(line[end] >= '0' && line[end] <= '9') {
				return true
			}
			j := strings.Index(line[end:], p+id)
			if j < 0 {
				break
			}
			i = end + j
		}
	}
	return false
}

func printFile(f *dst.File, opts ...bool) (out []byte, err error) {
	var buf bytes.Buffer
	extras := len(opts) > 0 && opts[0]
	imports := len(opts) > 1 && opts[1]
	if extras || imports {
		r := decorator.NewRestorer()
		if imports {
			r = decorator.NewRestorerWithImports("p", guess.New())
		}
		r.Extras = extras
		if extras && !imports {
			// (also: the FileRestorer goes on to restore another file before this one is printed)
			return dsth.PrintThenReuse(r, f)
		}
		err = r.Fprint(&buf, f)
		return buf.Bytes(), err
	}
	err = decorator.Fprint(&buf, f)
	return buf.Bytes(), err
}

var kindNames = []string{"stmts", "decls", "specs", "fields", "methods", "elems", "args", "clauses", "comms", "qelems", "qargs"}

func genChunks(t *rapid.T, k kind, prefix string, n int) []Chunk {
	var out []Chunk
	for i := 0; i < n; i++ {
		c := Chunk{ID: fmt.Sprintf("%s%d", prefix, i), Lead: rapid.IntRange(0, 2).Draw(t, "lead"), Trail: rapid.Bool().Draw(t, "trail"), Multi: rapid.IntRange(0, 3).Draw(t, "multi") == 0, Inner: rapid.IntRange(0, 4).Draw(t, "inner") == 0}
		c.BlockCmt = c.Lead > 0 && rapid.IntRange(0, 5).Draw(t, "blockcmt") == 0
		out = append(out, c)
	}
	return out
}

func genCase(t *rapid.T) (Case, bool) {
	const sub = "Edit"
	c := Case{Kind: kindNames[rapid.IntRange(0, len(kindNames)-1).Draw(t, "kind")], Layout: []string{"tight", "tight", "airy", "natural", "irregular"}[rapid.IntRange(0, 4).Draw(t, "layout")]}
	k := kinds[c.Kind]
	if c.Kind == "decls" && c.Layout == "tight" {
		// gofmt itself forces a blank line between top-level declarations of different keywords
		// and before one with a doc comment, depending on the neighbours: a "tight" list of
		// declarations does not exist as a layout that is stable under edits
		c.Layout = "natural"
	}
	na := rapid.IntRange(2, 6).Draw(t, "na")
	if c.Layout == "natural" && na < 4 {
		na = 4
	}
	c.A = genChunks(t, k, "1", na)
	if k.twoLists {
		nb := rapid.IntRange(1, 4).Draw(t, "nb")
		if c.Layout == "natural" && nb < 3 {
			nb = 3
		}
		c.B = genChunks(t, k, "2", nb)
	}
	if c.Kind == "clauses" || c.Kind == "comms" {
		// whether a comment between two clauses hangs under the first or leads the second is a
		// matter of its column; a case that has comment-only clause bodies therefore has no
		// leading comments above clauses (and the other way round)
		hang := false
		for _, ch := range append(append([]Chunk{}, c.A...), c.B...) {
			hang = hang || ch.Multi
		}
		if hang {
			for i := range c.A {
				c.A[i].Lead = 0
			}
			for i := range c.B {
				c.B[i].Lead = 0
			}
			h.Label("clauses-with-comment-only-body")
		}
	}
	if c.Layout == "irregular" {
		for i := 0; i < len(c.A)+len(c.B); i++ {
			c.Blanks = append(c.Blanks, rapid.Bool().Draw(t, "blank"))
		}
	}
	// dst attaches Before/After spacing to nodes (by design). Where the spacing at the ends of a
	// list differs from the spacing between elements, moving the first or last element changes
	// the blank-line pattern in the tree but not in the text model, so only interior positions
	// are edited then. Decided on the text alone: natural layout; file declarations (gofmt forces
	// a blank line after the package clause); airy layout when gofmt strips the blank lines at
	// the delimiters.
	c.Interior = c.Layout == "natural" || c.Kind == "decls" ||
		(c.Layout == "airy" && (c.Kind == "fields" || c.Kind == "methods" || c.Kind == "specs")) // gofmt strips blank lines at these delimiters depending on the context
	if c.Layout == "airy" {
		airy, _, e1 := oracle.Canon([]byte(k.file(c.A, c.B, "airy", nil)))
		nat, _, e2 := oracle.Canon([]byte(k.file(c.A, c.B, "natural", nil)))
		if e1 != nil || e2 != nil || bytes.Equal(airy, nat) {
			c.Interior = true
		}
	}
	if c.Interior {
		for len(c.A) < 4 {
			c.A = append(c.A, genChunks(t, k, fmt.Sprintf("1%d", len(c.A)), 1)...)
		}
		for k.twoLists && len(c.B) < 3 {
			c.B = append(c.B, genChunks(t, k, fmt.Sprintf("2%d", len(c.B)), 1)...)
		}
	}
	// the edit script, with the list lengths tracked so that every index is valid
	lens := []int{len(c.A), len(c.B)}
	nops := rapid.IntRange(1, 5).Draw(t, "nops")
	moved := false
	for i := 0; i < nops; i++ {
		l := 0
		if k.twoLists && lens[1] > 0 && rapid.Bool().Draw(t, "list") {
			l = 1
		}
		lo, hi := 0, lens[l]-1
		ilo, ihi := 0, lens[l] // insertion positions
		if c.Interior {
			lo, hi = 1, lens[l]-2
			ilo, ihi = 1, lens[l]-1
		}
		if hi < lo {
			continue
		}
		op := Op{L: l}
		switch rapid.IntRange(0, 3).Draw(t, "op") {
		case 0:
			if hi == lo {
				continue
			}
			op.Kind, op.I, op.J = "swap", rapid.IntRange(lo, hi).Draw(t, "i"), rapid.IntRange(lo, hi).Draw(t, "j")
		case 1:
			if lens[l] <= 2 || (c.Interior && lens[l] <= 3) {
				continue
			}
			op.Kind, op.I = "delete", rapid.IntRange(lo, hi).Draw(t, "i")
			lens[l]--
		case 2:
			op.Kind, op.I, op.J = "dup", rapid.IntRange(lo, hi).Draw(t, "i"), rapid.IntRange(ilo, ihi).Draw(t, "j")
			lens[l]++
		default:
			if !k.twoLists || lens[l] <= 2 || (c.Interior && lens[l] <= 3) {
				continue
			}
			o := 1 - l
			olo, ohi := 0, lens[o]
			if c.Interior {
				olo, ohi = 1, lens[o]-1
			}
			if ohi < olo {
				continue
			}
			op.Kind, op.I, op.J = "move", rapid.IntRange(lo, hi).Draw(t, "i"), rapid.IntRange(olo, ohi).Draw(t, "j")
			lens[l]--
			lens[o]++
		}
		h.Label("op:" + op.Kind)
		moved = true
		c.Ops = append(c.Ops, op)
	}
	if !moved {
		h.Exclude("no applicable edit drawn")
		return c, false
	}
	c.Extras = rapid.IntRange(0, 3).Draw(t, "extras") == 0
	if c.Extras {
		h.Label("restorer-extras")
	}
	h.Label("kind:" + c.Kind)
	h.Label("layout:" + c.Layout)
	commented := false
	for _, ch := range append(append([]Chunk{}, c.A...), c.B...) {
		if ch.Lead > 0 || ch.Trail {
			commented = true
		}
	}
	if commented {
		h.NonTrivial(sub, fmt.Sprint(c))
	}
	h.Sample(sub, c)
	return c, true
}

var prop = h.Prop("Edit", genCase, check)

func TestPropEdit(t *testing.T) { rapid.Check(t, prop) }

func TestReplay(t *testing.T) { known.RunRegressions(t, "C02") }

func TestReplayFile(t *testing.T) { h.TestReplayEnv(t) }
