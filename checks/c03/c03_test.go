// C03 — tokens and comments survive decorate+print for any parseable source.
// Oracle: go/format applied to the input (token stream, AST shape, comment texts in order).
package c03

import (
	"bytes"
	"fmt"
	"os"
	"sort"
	"strings"
	"testing"

	"github.com/dave/dst/decorator"
	"pgregory.net/rapid"

	"verif/internal/gen"
	"verif/internal/h"
	"verif/internal/known"
	"verif/internal/oracle"
)

func TestMain(m *testing.M) { h.Main(m, "C03") }

type Case struct {
	Src  string   `json:"src"`
	From string   `json:"from,omitempty"`
	Ops  []string `json:"ops,omitempty"`
}

// plain reports whether a comment is insensitive to go/printer's doc-comment re-flow: a
// single-line comment whose text is one run of ordinary words.
func plain(c string) bool {
	if strings.Contains(c, "\n") {
		return false
	}
	body := strings.TrimPrefix(c, "//")
	if strings.HasPrefix(c, "/*") {
		body = strings.TrimSuffix(strings.TrimPrefix(c, "/*"), "*/")
	}
	if body == "" || body != strings.TrimRight(body, " \t") {
		return false
	}
	tb := strings.TrimLeft(body, " ")
	if len(body)-len(tb) > 1 || tb == "" {
		return false
	}
	if strings.HasPrefix(c, "//") && len(body)-len(tb) != 1 {
		return false // "//x": gofmt inserts a blank when it takes the comment for a doc comment
	}
	switch tb[0] {
	case '-', '*', '+', '#', '\t', '[':
		return false
	}
	if tb[0] >= '0' && tb[0] <= '9' {
		return false
	}
	return !strings.Contains(tb, "  ") && !strings.Contains(tb, "\t") && !strings.Contains(tb, ":")
}

func check(sub string) func(t h.TB, c Case) {
	return func(t h.TB, c Case) {
		in := []byte(c.Src)
		ref, err := oracle.FormatSource(in)
		if err != nil {
			t.Fatalf("harness: input does not parse: %v", err)
		}
		if again, err := oracle.FormatSource(ref); err != nil || !bytes.Equal(again, ref) {
			// e.g. the first pass drops an empty "//" line between two import specs and the second
			// pass then sorts them: "gofmt applied to the input" is not a stable reference
			h.Exclude("gofmt is not idempotent on this input")
			return
		}
		var out bytes.Buffer
		var perr, ferr error
		h.Guard(t, sub, c, func() {
			f, err := decorator.Parse(in)
			if err != nil {
				perr = err
				return
			}
			ferr = decorator.Fprint(&out, f)
		})
		if perr != nil {
			h.Fail(t, sub, c, "Parse returned an error on source go/parser accepts: %v", perr)
		}
		if ferr != nil {
			h.Fail(t, sub, c, "Fprint returned an error: %v", ferr)
		}
		if bytes.Equal(out.Bytes(), ref) {
			return
		}
		if known.GenericAlias(ref) {
			// open finding KF-3: decorations next to the '=' / type parameter list of a generic
			// type alias are emitted on the wrong side of the list; a multi-line comment moved
			// there can even make the output unparseable. Only "no panic, no error" is demanded.
			h.KnownHit("KF-3")
			return
		}
		tr, cr, _ := oracle.Scan(ref)
		to, co, ok := oracle.Scan(out.Bytes())
		if !ok {
			h.Fail(t, sub, c, "output does not scan\n--- got ---\n%s", out.Bytes())
		}
		if _, _, err := oracle.Parse(out.Bytes()); err != nil {
			h.Fail(t, sub, c, "output does not parse: %v\n--- got ---\n%s", err, out.Bytes())
		}
		if d := oracle.DiffToks(tr, to); d != "" {
			h.Fail(t, sub, c, "token stream differs from gofmt(input): %s\n--- got ---\n%s", d, out.Bytes())
		}
		if d := oracle.SameShapeSrc(ref, out.Bytes()); d != "" {
			h.Fail(t, sub, c, "AST shape differs from gofmt(input): %s\n--- got ---\n%s", d, out.Bytes())
		}
		if d := oracle.DiffStrings(cr, co); d != "" {
			// The comment texts are not those of gofmt(input). Exact equality (with gofmt's
			// rendering or with the input's own texts) is demanded unless go/printer's
			// doc-comment re-flow is in play: gofmt itself rewrote a comment of this input, or the
			// input has comments with doc markup / multi-line block comments. Then (open finding
			// KF-1: dst keeps no columns and one group per comment, so go/printer re-flows other
			// comments than gofmt does) the multiset of comment lines, with everything the doc
			// formatter may touch erased, must still be the input's.
			_, ci, _ := oracle.Scan(in)
			if oracle.DiffStrings(ci, co) == "" {
				return
			}
			strict := oracle.DiffStrings(ci, cr) == ""
			for _, x := range ci {
				if !plain(x) {
					strict = false
				}
			}
			if strict || flattenSorted(ci) != flattenSorted(co) {
				h.Fail(t, sub, c, "comments differ from gofmt(input): %s\n--- got ---\n%s", d, out.Bytes())
			}
			h.KnownHit("KF-1:comment-reflow")
		}
	}
}

func hasBuildLine(src []byte) bool {
	for _, ln := range strings.Split(string(src), "\n") {
		ln = strings.TrimSpace(ln)
		if strings.HasPrefix(ln, "//go:build") || strings.HasPrefix(ln, "// +build") || strings.HasPrefix(ln, "//+build") {
			return true
		}
	}
	return false
}

func base(t *rapid.T) ([]byte, string, bool) {
	if rapid.IntRange(0, 2).Draw(t, "src") == 0 {
		p, b := gen.CorpusFile(t)
		if b == nil {
			h.Exclude("no corpus")
			return nil, "", false
		}
		if _, _, err := oracle.Parse(b); err != nil {
			h.Exclude("corpus file does not parse (testdata)")
			return nil, "", false
		}
		return b, p, true
	}
	raw, kinds := gen.SynFile(t, rapid.IntRange(10, 200).Draw(t, "size"))
	for k := range kinds {
		h.Label("syn:" + k)
	}
	if _, _, err := oracle.Parse([]byte(raw)); err != nil {
		h.Exclude("generator produced unparseable text")
		return nil, "", false
	}
	return []byte(raw), "G-SYN", true
}

func genCase(sub string, kf5 bool) func(t *rapid.T) (Case, bool) {
	return func(t *rapid.T) (Case, bool) {
		b, from, ok := base(t)
		if !ok {
			return Case{}, false
		}
		var ops []string
		if rapid.Bool().Draw(t, "canonfirst") {
			if cb, fix, err := oracle.Canon(b); err == nil && fix {
				b = cb
				ops = append(ops, "gofmt")
			}
		}
		src, ik := gen.Inject(t, b, gen.LayoutOpts{Max: 12, NoBuildTags: true, Special: rapid.IntRange(0, 3).Draw(t, "special") == 0})
		ops = append(ops, ik...)
		if oracle.CommentInImportBlock(src) {
			// go/format sorts parenthesised import declarations and moves comments inside them
			// on its own, depending on line adjacency: start from gofmt's own arrangement.
			cb, fix, err := oracle.Canon(src)
			if err != nil || !fix {
				h.Exclude("gofmt not idempotent on this text")
				return Case{}, false
			}
			src = cb
			ops = append(ops, "gofmt(import-comments)")
		}
		var nk []string
		src, nk = gen.Noise(t, src)
		ops = append(ops, nk...)
		if kf5 {
			var k string
			src, k = gen.NoiseKF5(t, src)
			ops = append(ops, k)
		}
		ref, fix, err := oracle.Canon(src)
		if err != nil {
			h.Exclude("perturbed text does not parse")
			return Case{}, false
		}
		if !fix {
			h.Exclude("gofmt not idempotent on this text")
			return Case{}, false
		}
		if hasBuildLine(src) {
			// go/printer regenerates, moves and deletes //go:build and // +build lines on its
			// own (fixGoBuildLines), depending on what the header looks like
			h.Exclude("build-constraint lines (go/printer rewrites them itself)")
			return Case{}, false
		}
		if !kf5 && gen.InKF5Class(src) {
			h.Exclude("KF-5 class (CR or whitespace-only line)")
			h.KnownHit("KF-5:excluded")
			return Case{}, false
		}
		for _, o := range ops {
			h.Label("op:" + o)
		}
		_, cs, _ := oracle.Scan(src)
		if !bytes.Equal(ref, src) && len(cs) >= 3 {
			h.NonTrivial(sub, string(src))
		}
		c := Case{Src: string(src), From: from, Ops: ops}
		h.Sample(sub, map[string]any{"from": from, "ops": ops, "src": h.Trunc(c.Src, 500)})
		return c, true
	}
}

var (
	propNoise = h.Prop("Noise", genCase("Noise", false), check("Noise"))
)

func TestPropNoise(t *testing.T) { rapid.Check(t, propNoise) }

// checkKF5 judges inputs of the KF-5 class: blank lines may be lost (open finding), but the
// output must still parse and every comment must survive; token order may differ only inside
// import declarations (gofmt sorts merged groups).
func checkKF5(t h.TB, c Case) {
	const sub = "KF5"
	in := []byte(c.Src)
	var out bytes.Buffer
	var perr, ferr error
	h.Guard(t, sub, c, func() {
		f, err := decorator.Parse(in)
		if err != nil {
			perr = err
			return
		}
		ferr = decorator.Fprint(&out, f)
	})
	if perr != nil || ferr != nil {
		h.Fail(t, sub, c, "error on parseable source: %v %v", perr, ferr)
	}
	if _, _, err := oracle.Parse(out.Bytes()); err != nil {
		h.Fail(t, sub, c, "output does not parse: %v", err)
	}
	ref, _, _ := oracle.Canon(in)
	tr, cr, _ := oracle.Scan(ref)
	to, co, _ := oracle.Scan(out.Bytes())
	if len(tr) != len(to) {
		h.Fail(t, sub, c, "token count differs: %d vs %d", len(tr), len(to))
	}
	if flattenSorted(cr) != flattenSorted(co) {
		h.Fail(t, sub, c, "comment multiset differs from gofmt(input)")
	}
	if oracle.DiffToks(tr, to) != "" || oracle.DiffStrings(cr, co) != "" {
		h.KnownHit("KF-5")
	}
}

// flattenSorted is an order- and line-structure-insensitive digest of comment texts: the sorted
// multiset of their non-empty lines with markers and blanks removed.
func flattenSorted(cs []string) string {
	var x []string
	for _, c := range cs {
		if strings.HasPrefix(c, "//") {
			c = c[2:]
		} else {
			c = strings.TrimSuffix(strings.TrimPrefix(c, "/*"), "*/")
		}
		for _, ln := range strings.Split(c, "\n") {
			ln = strings.Join(strings.Fields(ln), "")
			// go/printer drops control characters from comment lines and rewrites build constraints
			ln = strings.Map(func(r rune) rune {
				if r < 0x20 || r == 0x7f {
					return -1
				}
				return r
			}, ln)
			if strings.HasPrefix(ln, "go:build") || strings.HasPrefix(ln, "+build") {
				continue
			}
			ln = strings.NewReplacer("``", "\u201c", "''", "\u201d").Replace(ln) // the doc formatter curls these quotes
			ln = strings.TrimLeft(ln, "#")
			ln = strings.TrimLeft(ln, "-*+•")
			ln = strings.TrimLeft(ln, "0123456789")
			ln = strings.TrimLeft(ln, ".)")
			if ln != "" {
				x = append(x, ln)
			}
		}
	}
	sort.Strings(x)
	return strings.Join(x, "\x00")
}

var propKF5 = h.Prop("KF5", genCase("KF5", true), checkKF5)

func TestPropKF5(t *testing.T) { rapid.Check(t, propKF5) }

func TestReplay(t *testing.T) {
	known.RunWitnesses(t, "C03", func(t h.TB, w known.Witness) {
		if !w.Open {
			check("Witness")(t, Case{Src: w.Input}) // a repaired finding: an ordinary regression input
			return
		}
		// witnesses of open findings are judged strictly, whatever class they are in: output
		// parses, tokens and comment sequence are those of gofmt(input)
		in := []byte(w.Input)
		ref, _, err := oracle.Canon(in)
		if err != nil {
			t.Fatalf("harness: witness does not parse: %v", err)
		}
		f, err := decorator.Parse(in)
		if err != nil {
			h.Fail(t, "Witness", w, "Parse: %v", err)
		}
		var out bytes.Buffer
		if err := decorator.Fprint(&out, f); err != nil {
			h.Fail(t, "Witness", w, "Fprint: %v", err)
		}
		if _, _, err := oracle.Parse(out.Bytes()); err != nil {
			h.Fail(t, "Witness", w, "output does not parse: %v", err)
		}
		tr, cr, _ := oracle.Scan(ref)
		to, co, _ := oracle.Scan(out.Bytes())
		if d := oracle.DiffToks(tr, to); d != "" {
			h.Fail(t, "Witness", w, "tokens: %s", d)
		}
		if d := oracle.DiffStrings(cr, co); d != "" {
			h.Fail(t, "Witness", w, "comments: %s", d)
		}
	})
	known.RunRegressions(t, "C03")
	// corpus sweep: every corpus file that parses, verbatim (canonical or not)
	files := gen.CorpusAll()
	stride := 1
	if os.Getenv("VERIF_TIER") != "thorough" {
		stride = 16
	}
	off := 0
	fmt.Sscan(os.Getenv("VERIF_SEED"), &off)
	for i := off % stride; i < len(files); i += stride {
		src := gen.ReadCorpus(files[i])
		if _, _, err := oracle.Parse(src); err != nil {
			continue
		}
		if gen.InKF5Class(src) || hasBuildLine(src) {
			h.Exclude("KF-5 class / build-constraint corpus file")
			continue
		}
		if _, fix, _ := oracle.Canon(src); !fix {
			continue
		}
		h.Eval("CorpusSweep")
		check("CorpusSweep")(t, Case{Src: string(src), From: files[i]})
		if !oracle.IsCanon(src) {
			h.NonTrivial("CorpusSweep", files[i])
		}
	}
}

func init() {
	h.RegisterReplay("Witness", check("Witness"))
	h.RegisterReplay("CorpusSweep", check("CorpusSweep"))
	h.RegisterReplay("Fuzz", check("Fuzz"))
}

func TestReplayFile(t *testing.T) { h.TestReplayEnv(t) }

// FuzzTokens is the byte-level coverage-guided target (thorough tier): any input go/parser
// accepts must keep its tokens and comments.
func FuzzTokens(f *testing.F) {
	for _, s := range []string{
		"package p\n\nfunc f() {\n\t// c\n\tx := 1 /* d */\n}\n",
		"package p\nimport (\"a\"\n\n\"b\")\nvar x = `a\nb` // c\n",
		"package p;type T struct{a int `t`;b string};func(t T)M(){switch x:=y.(type){case int:}}",
	} {
		f.Add([]byte(s))
	}
	f.Fuzz(func(t *testing.T, data []byte) {
		if _, _, err := oracle.Parse(data); err != nil {
			return
		}
		canon, fix, err := oracle.Canon(data)
		if err != nil || !fix || gen.InKF5Class(data) || hasBuildLine(data) || !oracle.NodeStable(canon) {
			return
		}
		h.Eval("Fuzz")
		check("Fuzz")(t, Case{Src: string(data)})
	})
}
