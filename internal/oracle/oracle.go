// Package oracle holds the dst-independent helpers the checks judge with: go/scanner token and
// comment streams, go/ast shape comparison, gofmt canonicalisation, the column-robustness
// predicate and line skeletons. Nothing in this package imports dave/dst.
package oracle

import (
	"bytes"
	"fmt"
	"go/ast"
	"go/format"
	"go/parser"
	"go/scanner"
	"go/token"
	"reflect"
	"strings"
)

// Tok is one token of the comparison stream.
type Tok struct {
	Kind token.Token
	Lit  string
}

func (t Tok) String() string {
	if t.Lit != "" {
		return t.Lit
	}
	return t.Kind.String()
}

// Scan returns the token stream of src with ALL semicolons dropped (automatic vs explicit
// semicolons flip when go/printer puts a body on one line; statement boundaries are protected by
// SameShape instead), the comment texts in order, and whether scanning met no error.
func Scan(src []byte) (toks []Tok, comments []string, ok bool) {
	fset := token.NewFileSet()
	file := fset.AddFile("", -1, len(src))
	var s scanner.Scanner
	ok = true
	s.Init(file, src, func(pos token.Position, msg string) { ok = false }, scanner.ScanComments)
	for {
		_, tok, lit := s.Scan()
		if tok == token.EOF {
			break
		}
		switch {
		case tok == token.SEMICOLON:
			continue
		case tok == token.COMMENT:
			comments = append(comments, lit)
		case tok.IsLiteral():
			toks = append(toks, Tok{tok, lit})
		default:
			toks = append(toks, Tok{Kind: tok})
		}
	}
	return
}

// DiffToks returns "" when a and b are equal, else a description of the first difference.
func DiffToks(a, b []Tok) string {
	n := len(a)
	if len(b) < n {
		n = len(b)
	}
	for i := 0; i < n; i++ {
		if a[i] != b[i] {
			return fmt.Sprintf("token %d: %q vs %q (context: %s | %s)", i, a[i].String(), b[i].String(), ctx(a, i), ctx(b, i))
		}
	}
	if len(a) != len(b) {
		return fmt.Sprintf("token count %d vs %d (first extra: %s)", len(a), len(b), extra(a, b, n))
	}
	return ""
}

func ctx(a []Tok, i int) string {
	lo, hi := i-4, i+4
	if lo < 0 {
		lo = 0
	}
	if hi > len(a) {
		hi = len(a)
	}
	var parts []string
	for _, t := range a[lo:hi] {
		parts = append(parts, t.String())
	}
	return strings.Join(parts, " ")
}

func extra(a, b []Tok, n int) string {
	if len(a) > n {
		return "left " + ctx(a, n)
	}
	return "right " + ctx(b, n)
}

// DiffStrings compares two string sequences.
func DiffStrings(a, b []string) string {
	n := len(a)
	if len(b) < n {
		n = len(b)
	}
	for i := 0; i < n; i++ {
		if a[i] != b[i] {
			return fmt.Sprintf("item %d: %q vs %q", i, a[i], b[i])
		}
	}
	if len(a) != len(b) {
		if len(a) > n {
			return fmt.Sprintf("count %d vs %d (extra left: %q)", len(a), len(b), a[n])
		}
		return fmt.Sprintf("count %d vs %d (extra right: %q)", len(a), len(b), b[n])
	}
	return ""
}

// FormatSource is format.Source with go/format's own crashes turned into errors (go/ast.SortImports
// panics on `import(""//c⏎"")` without a final newline: "invalid line number"). Such inputs are
// treated like inputs gofmt rejects.
func FormatSource(src []byte) (out []byte, err error) {
	defer func() {
		if r := recover(); r != nil {
			out, err = nil, fmt.Errorf("go/format panicked: %v", r)
		}
	}()
	return format.Source(src)
}

// NodeStable reports whether go/format.Node, applied to the tree go/parser returns for src,
// reproduces src. dst prints through format.Node, gofmt through format.Source, and the two differ
// on some inputs (format.Node prints, re-parses and sorts imports: with a form feed inside an
// import path it loses a spec). Byte-level fuzz targets only judge inputs on which the reference
// printer itself is stable.
func NodeStable(src []byte) (ok bool) {
	defer func() {
		if recover() != nil {
			ok = false
		}
	}()
	fset := token.NewFileSet()
	f, err := parser.ParseFile(fset, "", src, parser.ParseComments)
	if err != nil {
		return false
	}
	var buf bytes.Buffer
	if err := format.Node(&buf, fset, f); err != nil {
		return false
	}
	return bytes.Equal(buf.Bytes(), src)
}

// Canon applies format.Source until a fixpoint (at most 4 rounds). fix reports whether a
// fixpoint was reached; err is the parse error if src is not valid Go.
func Canon(src []byte) (out []byte, fix bool, err error) {
	cur := src
	for i := 0; i < 4; i++ {
		next, err := FormatSource(cur)
		if err != nil {
			return nil, false, err
		}
		if bytes.Equal(next, cur) {
			return cur, true, nil
		}
		cur = next
	}
	return cur, false, nil
}

// IsCanon reports whether src is a gofmt fixpoint.
func IsCanon(src []byte) bool {
	out, err := FormatSource(src)
	return err == nil && bytes.Equal(out, src)
}

// Parse parses src with comments.
func Parse(src []byte) (*token.FileSet, *ast.File, error) {
	fset := token.NewFileSet()
	f, err := parser.ParseFile(fset, "", src, parser.ParseComments)
	return fset, f, err
}

// SameShape reports structural equality of two go/ast trees ignoring positions, comments and
// object resolution. It returns "" when equal, else the path of the first difference.
func SameShape(a, b ast.Node) string {
	return shape(reflect.ValueOf(a), reflect.ValueOf(b), "")
}

var (
	posType     = reflect.TypeOf(token.NoPos)
	cgType      = reflect.TypeOf((*ast.CommentGroup)(nil))
	objType     = reflect.TypeOf((*ast.Object)(nil))
	scopeType   = reflect.TypeOf((*ast.Scope)(nil))
	cgSliceType = reflect.TypeOf([]*ast.CommentGroup(nil))
)

func shape(a, b reflect.Value, path string) string {
	if a.IsValid() != b.IsValid() {
		return path + ": one side missing"
	}
	if !a.IsValid() {
		return ""
	}
	if a.Type() != b.Type() {
		return fmt.Sprintf("%s: %s vs %s", path, a.Type(), b.Type())
	}
	switch a.Type() {
	case posType:
		// only validity of positions that stand for optional tokens matters
		return ""
	case cgType, objType, scopeType, cgSliceType:
		return ""
	}
	switch a.Kind() {
	case reflect.Interface, reflect.Ptr:
		if a.IsNil() != b.IsNil() {
			return fmt.Sprintf("%s: nil vs non-nil (%v / %v)", path, a.IsNil(), b.IsNil())
		}
		if a.IsNil() {
			return ""
		}
		return shape(a.Elem(), b.Elem(), path)
	case reflect.Struct:
		for i := 0; i < a.NumField(); i++ {
			f := a.Type().Field(i)
			if f.Name == "Unresolved" || f.Name == "Imports" || f.Name == "FileStart" || f.Name == "FileEnd" || f.Name == "GoVersion" {
				continue
			}
			// Optional tokens are represented by position validity: Lparen/Rparen of GenDecl,
			// CallExpr.Ellipsis, TypeSpec.Assign, FuncType.Func, ChanType.Arrow ...
			if f.Type == posType {
				switch a.Type().Name() + "." + f.Name {
				case "GenDecl.Lparen", "CallExpr.Ellipsis", "TypeSpec.Assign", "CompositeLit.Lbrace":
					if a.Field(i).Interface().(token.Pos).IsValid() != b.Field(i).Interface().(token.Pos).IsValid() {
						return fmt.Sprintf("%s.%s.%s: validity differs", path, a.Type().Name(), f.Name)
					}
				}
				continue
			}
			if d := shape(a.Field(i), b.Field(i), path+"."+a.Type().Name()+"."+f.Name); d != "" {
				return d
			}
		}
		return ""
	case reflect.Slice:
		if a.Len() != b.Len() {
			return fmt.Sprintf("%s: len %d vs %d", path, a.Len(), b.Len())
		}
		for i := 0; i < a.Len(); i++ {
			if d := shape(a.Index(i), b.Index(i), fmt.Sprintf("%s[%d]", path, i)); d != "" {
				return d
			}
		}
		return ""
	case reflect.Map:
		return ""
	default:
		if !reflect.DeepEqual(a.Interface(), b.Interface()) {
			return fmt.Sprintf("%s: %v vs %v", path, a.Interface(), b.Interface())
		}
		return ""
	}
}

// SameShapeSrc parses both texts and compares their shapes.
func SameShapeSrc(a, b []byte) string {
	_, fa, err := Parse(a)
	if err != nil {
		return "left does not parse: " + err.Error()
	}
	_, fb, err := Parse(b)
	if err != nil {
		return "right does not parse: " + err.Error()
	}
	return SameShape(fa, fb)
}

// InsideLines returns the set of 1-based line numbers that start inside a multi-line token
// (raw string or block comment).
func InsideLines(src []byte) map[int]bool {
	fset := token.NewFileSet()
	file := fset.AddFile("", -1, len(src))
	var s scanner.Scanner
	s.Init(file, src, func(token.Position, string) {}, scanner.ScanComments)
	inside := map[int]bool{}
	for {
		pos, tok, lit := s.Scan()
		if tok == token.EOF {
			break
		}
		if (tok == token.STRING || tok == token.COMMENT) && strings.Contains(lit, "\n") {
			l0 := file.PositionFor(pos, false).Line // physical line (ignore //line directives)
			n := strings.Count(lit, "\n")
			for i := 1; i <= n; i++ {
				inside[l0+i] = true
			}
		}
	}
	return inside
}

// Reindent replaces the leading whitespace of every line that does not start inside a raw string
// or block comment: code lines get prefix, comment-only lines get cprefix.
func Reindent(src []byte, prefix, cprefix string) []byte {
	inside := InsideLines(src)
	lines := strings.Split(string(src), "\n")
	for i := range lines {
		if inside[i+1] {
			continue
		}
		t := strings.TrimLeft(lines[i], " \t")
		switch {
		case t == "":
			lines[i] = ""
		case strings.HasPrefix(t, "//") || strings.HasPrefix(t, "/*"):
			lines[i] = cprefix + t
		default:
			lines[i] = prefix + t
		}
	}
	return []byte(strings.Join(lines, "\n"))
}

// ColumnRobust reports whether canonical src stays the same gofmt fixpoint when relative source
// columns are erased or shifted the way dst's synthetic position space does: (P1) every line at
// column 1; (P2) comment-only lines at column 2, code at column 1; (P3) code at column 2,
// comment-only lines at column 1. It is a predicate on the input only. Files for which it is
// false are in the class of known finding KF-1 (go/printer decides comment indentation, doc
// comment re-flow and continuation indentation from source columns, which dst does not store).
func ColumnRobust(src []byte) bool {
	for _, p := range [][2]string{{"", ""}, {"", " "}, {" ", ""}} {
		out, err := FormatSource(Reindent(src, p[0], p[1]))
		if err != nil || !bytes.Equal(out, src) {
			return false
		}
	}
	return true
}

// Skeleton classifies each line of src: "" blank, "c" comment-only, "x" code, "xc" code with a
// trailing comment.
func Skeleton(src []byte) []string {
	fset := token.NewFileSet()
	file := fset.AddFile("", -1, len(src))
	var s scanner.Scanner
	s.Init(file, src, func(token.Position, string) {}, scanner.ScanComments)
	nl := bytes.Count(src, []byte("\n"))
	if len(src) > 0 && src[len(src)-1] != '\n' {
		nl++
	}
	code := make([]bool, nl+2)
	comm := make([]bool, nl+2)
	for {
		pos, tok, lit := s.Scan()
		if tok == token.EOF {
			break
		}
		if tok == token.SEMICOLON && lit == "\n" {
			continue
		}
		l := file.PositionFor(pos, false).Line
		n := 0
		if tok == token.COMMENT || tok == token.STRING {
			n = strings.Count(lit, "\n")
		}
		for i := 0; i <= n; i++ {
			if tok == token.COMMENT {
				comm[l+i] = true
			} else {
				code[l+i] = true
			}
		}
	}
	out := make([]string, nl)
	for i := 1; i <= nl; i++ {
		switch {
		case code[i] && comm[i]:
			out[i-1] = "xc"
		case code[i]:
			out[i-1] = "x"
		case comm[i]:
			out[i-1] = "c"
		}
	}
	return out
}

// FirstDiffLine describes the first differing line of two texts.
func FirstDiffLine(a, b []byte) string {
	al, bl := strings.Split(string(a), "\n"), strings.Split(string(b), "\n")
	n := len(al)
	if len(bl) < n {
		n = len(bl)
	}
	for i := 0; i < n; i++ {
		if al[i] != bl[i] {
			return fmt.Sprintf("line %d: %q vs %q", i+1, al[i], bl[i])
		}
	}
	if len(al) != len(bl) {
		return fmt.Sprintf("line count %d vs %d", len(al), len(bl))
	}
	return ""
}

// CommentInImportBlock reports whether a comment lies inside a parenthesised import declaration.
// go/format re-parses and ast.SortImports-sorts such declarations, moving comments on its own, so
// generators canonicalise (or avoid) these layouts before perturbing them further.
func CommentInImportBlock(src []byte) bool {
	_, f, err := Parse(src)
	if err != nil {
		return false
	}
	for _, d := range f.Decls {
		gd, ok := d.(*ast.GenDecl)
		if !ok || gd.Tok != token.IMPORT || !gd.Lparen.IsValid() {
			continue
		}
		for _, cg := range f.Comments {
			if cg.Pos() > gd.Lparen && cg.Pos() < gd.Rparen {
				return true
			}
		}
	}
	return false
}
