package gen

import (
	"testing"

	"pgregory.net/rapid"
)

func TestProgTypeChecks(t *testing.T) {
	bad, total := 0, 0
	var first string
	rapid.Check(t, func(t *rapid.T) {
		p := GenProg(t, 2, 3)
		total++
		imp, err := p.Importer()
		if err != nil {
			t.Fatalf("libs: %v", err)
		}
		for _, root := range []string{"example.com/root", "example.com/other"} {
			if _, err := p.CheckSources(imp, root, p.RootSources(root)); err != nil {
				bad++
				if first == "" {
					first = err.Error()
					for _, f := range p.Files {
						first += "\n--- " + f.Name + "\n" + f.Src
					}
				}
			}
		}
	})
	t.Logf("programs %d, packages failing type-check %d", total, bad)
	if first != "" {
		t.Logf("first failure: %s", first)
	}
}
