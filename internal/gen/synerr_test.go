package gen

import (
	"go/parser"
	"go/token"
	"regexp"
	"sort"
	"strings"
	"testing"

	"pgregory.net/rapid"
)

func TestSynErrors(t *testing.T) {
	hist := map[string]int{}
	ex := map[string]string{}
	re := regexp.MustCompile(`^[0-9:]+ `)
	rapid.Check(t, func(t *rapid.T) {
		src, _ := SynFile(t, rapid.IntRange(20, 300).Draw(t, "size"))
		_, err := parser.ParseFile(token.NewFileSet(), "", src, parser.ParseComments)
		if err != nil {
			m := re.ReplaceAllString(strings.Split(err.Error(), "\n")[0], "")
			hist[m]++
			if ex[m] == "" || len(src) < len(ex[m]) {
				ex[m] = err.Error() + "\n" + src
			}
		}
	})
	var ks []string
	for k := range hist {
		ks = append(ks, k)
	}
	sort.Slice(ks, func(i, j int) bool { return hist[ks[i]] > hist[ks[j]] })
	for _, k := range ks {
		t.Logf("%4d %s", hist[k], k)
	}
	for i, k := range ks {
		if i < 12 {
			t.Logf("=== %s\n%s", k, ex[k])
		}
	}
}
