package gen

import (
	"go/format"
	"go/parser"
	"go/token"
	"sort"
	"testing"

	"pgregory.net/rapid"
)

func TestSynValid(t *testing.T) {
	bad, total, lines := 0, 0, 0
	kinds := map[string]int{}
	var firstBad string
	rapid.Check(t, func(t *rapid.T) {
		src, ks := SynFile(t, rapid.IntRange(20, 300).Draw(t, "size"))
		total++
		_, err := parser.ParseFile(token.NewFileSet(), "", src, parser.ParseComments)
		if err != nil {
			bad++
			if firstBad == "" || len(src) < len(firstBad) {
				firstBad = err.Error() + "\n" + src
			}
			return
		}
		out, err := format.Source([]byte(src))
		if err != nil {
			t.Fatalf("format: %v", err)
		}
		for _, c := range out {
			if c == '\n' {
				lines++
			}
		}
		for k := range ks {
			kinds[k]++
		}
	})
	t.Logf("total %d bad %d avg lines %d", total, bad, lines/(total-bad+1))
	if firstBad != "" {
		t.Logf("smallest bad:\n%s", firstBad)
	}
	var ks []string
	for k := range kinds {
		ks = append(ks, k)
	}
	sort.Strings(ks)
	for _, k := range ks {
		t.Logf("%-32s %5.1f%%", k, 100*float64(kinds[k])/float64(total))
	}
}
