package gen

import (
	"bytes"
	"fmt"
	"go/parser"
	"go/scanner"
	"go/token"
	"strings"

	"pgregory.net/rapid"
)

// LayoutOpts controls G-LAYOUT.
type LayoutOpts struct {
	Max          int  // maximum number of injections
	NoLine       bool // only block comments (no "//" comments, no line breaks)
	Special      bool // allow go/printer-sensitive comment texts (doc markup, directives)
	NoBuildTags  bool // never add a //go:build header
	AvoidImports bool // never insert inside a parenthesised import declaration (go/format re-sorts those and moves comments itself)
	Tag          string
}

// Inject is G-LAYOUT: it inserts comments, line breaks and blank lines at token gaps of a
// parseable source text. Each injection is kept only if the text still parses, so the result is
// always parseable. The returned list names the kinds of injection that were applied.
func Inject(t *rapid.T, src []byte, o LayoutOpts) ([]byte, []string) {
	if o.Max <= 0 {
		return src, nil
	}
	n := rapid.IntRange(0, o.Max).Draw(t, "ninj")
	var kinds []string
	cur := src
	for i := 0; i < n; i++ {
		next, kind := injectOne(t, cur, o, i)
		if next == nil {
			continue
		}
		if _, err := parser.ParseFile(token.NewFileSet(), "", next, parser.ParseComments|parser.SkipObjectResolution); err != nil {
			kinds = append(kinds, "rejected:"+kind)
			continue
		}
		cur = next
		kinds = append(kinds, kind)
	}
	return cur, kinds
}

type gap struct {
	off    int // byte offset where text is inserted
	before bool
	w      int
}

// gaps lists candidate insertion offsets: the start of every token (weight 1, or 3 next to the
// punctuation the decorator special-cases) and the end of every line.
func gaps(src []byte, avoidImports bool) (tokStarts []int, lineEnds []int, weighted []int) {
	fset := token.NewFileSet()
	file := fset.AddFile("", -1, len(src))
	var s scanner.Scanner
	s.Init(file, src, func(token.Position, string) {}, scanner.ScanComments)
	prevHot := false
	var impFrom, impTo []int // byte ranges of parenthesised import declarations
	prevTok, inImp := token.ILLEGAL, false
	for {
		pos, tok, lit := s.Scan()
		if tok == token.EOF {
			break
		}
		if tok == token.SEMICOLON && lit == "\n" {
			continue
		}
		off := file.Offset(pos)
		if tok != token.COMMENT {
			if prevTok == token.IMPORT && tok == token.LPAREN {
				inImp = true
				impFrom = append(impFrom, off)
			} else if inImp && tok == token.RPAREN {
				inImp = false
				impTo = append(impTo, off)
			}
			prevTok = tok
		}
		if avoidImports && (inImp || tok == token.RPAREN && len(impTo) > 0 && impTo[len(impTo)-1] == off) {
			continue
		}
		tokStarts = append(tokStarts, off)
		hot := false
		switch tok {
		case token.LBRACE, token.RBRACE, token.LPAREN, token.RPAREN, token.COMMA, token.COLON, token.PERIOD,
			token.ELSE, token.CASE, token.DEFAULT, token.LBRACK, token.RBRACK, token.RETURN, token.ARROW, token.ELLIPSIS, token.ASSIGN:
			hot = true
		}
		w := 1
		if hot || prevHot {
			w = 3
		}
		for i := 0; i < w; i++ {
			weighted = append(weighted, off)
		}
		prevHot = hot
	}
	inside := map[int]bool{}
	{
		// line ends that are inside raw strings / block comments are not candidates
		var s2 scanner.Scanner
		f2 := token.NewFileSet().AddFile("", -1, len(src))
		s2.Init(f2, src, func(token.Position, string) {}, scanner.ScanComments)
		for {
			pos, tok, lit := s2.Scan()
			if tok == token.EOF {
				break
			}
			if (tok == token.STRING || tok == token.COMMENT) && strings.Contains(lit, "\n") {
				o := f2.Offset(pos)
				for j := 0; j < len(lit); j++ {
					if lit[j] == '\n' {
						inside[o+j] = true
					}
				}
			}
		}
	}
	for i, c := range src {
		if c == '\n' && !inside[i] {
			// skip lines that already end in a comment or are blank
			j := i
			for j > 0 && src[j-1] != '\n' {
				j--
			}
			line := src[j:i]
			if len(bytes.TrimSpace(line)) == 0 || bytes.Contains(line, []byte("//")) {
				continue
			}
			if avoidImports {
				in := false
				for k := range impTo {
					if i >= impFrom[k] && i <= impTo[k] {
						in = true
					}
				}
				if in {
					continue
				}
			}
			lineEnds = append(lineEnds, i)
		}
	}
	return
}

var specialTexts = []string{
	"// - item one\n//   continued\n// - item two\n",
	"// # Heading\n//\n// text\n",
	"//\tcode block\n//\n// para\n",
	"//line foo.go:10\n",
	"//go:noinline\n",
	"//nolint:foo\n",
	"//export f\n",
	"// Deprecated: x\n",
	"/*\n\tindented\n\t\tmore\n*/\n",
	"/*\n * star\n * box\n */\n",
	"// TODO(x): y\n",
	"//\n",
	"/**/",
	"/* a */ /* b */",
}

func injectOne(t *rapid.T, src []byte, o LayoutOpts, i int) ([]byte, string) {
	tokStarts, lineEnds, weighted := gaps(src, o.AvoidImports)
	if len(tokStarts) == 0 {
		return nil, ""
	}
	tag := fmt.Sprintf("%s%d", o.Tag, i)
	pickTok := func() int { return weighted[rapid.IntRange(0, len(weighted)-1).Draw(t, "gap")] }
	ins := func(off int, s string) []byte {
		out := make([]byte, 0, len(src)+len(s))
		out = append(out, src[:off]...)
		out = append(out, s...)
		out = append(out, src[off:]...)
		return out
	}
	nk := 14
	if o.NoLine {
		nk = 3
	}
	k := rapid.IntRange(0, nk-1).Draw(t, "kind")
	switch k {
	case 0:
		return ins(pickTok(), "/*c"+tag+"*/"), "block-before"
	case 1:
		return ins(pickTok(), "/*c"+tag+"*/ "), "block-before-sp"
	case 2:
		return ins(pickTok(), " /* m"+tag+"\n   second line */ "), "block-multiline"
	case 3:
		return ins(pickTok(), "// l"+tag+"\n"), "line-before"
	case 4:
		return ins(pickTok(), "\n"), "newline"
	case 5:
		return ins(pickTok(), "\n\n"), "blankline"
	case 6:
		return ins(pickTok(), "\n\n// g"+tag+"\n\n"), "floating-group"
	case 7:
		if len(lineEnds) == 0 {
			return nil, ""
		}
		off := lineEnds[rapid.IntRange(0, len(lineEnds)-1).Draw(t, "line")]
		return ins(off, " // t"+tag), "trailing"
	case 8:
		return ins(pickTok(), "// a"+tag+"\n// b"+tag+"\n"), "line-group"
	case 9:
		return ins(len(src), "\n// eof"+tag+"\n"), "eof"
	case 10:
		// own-line comment at the start of a line (before the line's first token)
		if len(lineEnds) == 0 {
			return nil, ""
		}
		off := lineEnds[rapid.IntRange(0, len(lineEnds)-1).Draw(t, "line")]
		return ins(off+1, "// o"+tag+"\n"), "own-line"
	case 11:
		if o.NoBuildTags || bytes.HasPrefix(src, []byte("//go:build")) || rapid.IntRange(0, 3).Draw(t, "hdr") > 0 {
			return ins(0, "// h"+tag+"\n\n"), "header-comment"
		}
		return ins(0, "//go:build linux\n\n"), "build-tag"
	case 13:
		// line directives change what FileSet.Position reports for everything behind them
		if rapid.Bool().Draw(t, "inline") {
			return ins(pickTok(), fmt.Sprintf("/*line f%s.go:%d*/", tag, 3+i)), "line-directive"
		}
		if len(lineEnds) == 0 {
			return nil, ""
		}
		// a //line directive is only recognised in column 1, and gofmt never indents it: inside
		// indented code that is a column-dependent layout (KF-1 class), so it goes in front of
		// unindented lines only
		var top []int
		depth := nestingDepth(src)
		for _, e := range lineEnds {
			if e+1 < len(src) && depth[e+1] == 0 && src[e+1] != '\n' {
				top = append(top, e)
			}
		}
		if len(top) == 0 {
			return nil, ""
		}
		off := top[rapid.IntRange(0, len(top)-1).Draw(t, "line")]
		return ins(off+1, fmt.Sprintf("//line f%s.go:%d\n", tag, 2+i)), "line-directive"
	default:
		if !o.Special {
			return ins(pickTok(), "/*s"+tag+"*/"), "block-before"
		}
		s := specialTexts[rapid.IntRange(0, len(specialTexts)-1).Draw(t, "special")]
		return ins(pickTok(), s), "special"
	}
}

// nestingDepth returns, for every byte offset, how many brackets of any kind are open there.
func nestingDepth(src []byte) []int {
	depth := make([]int, len(src)+1)
	fset := token.NewFileSet()
	file := fset.AddFile("", -1, len(src))
	var s scanner.Scanner
	s.Init(file, src, func(token.Position, string) {}, 0)
	d, last := 0, 0
	for {
		pos, tok, _ := s.Scan()
		if tok == token.EOF {
			break
		}
		off := file.Offset(pos)
		for i := last; i <= off && i < len(depth); i++ {
			depth[i] = d
		}
		switch tok {
		case token.LBRACE, token.LPAREN, token.LBRACK:
			d++
		case token.RBRACE, token.RPAREN, token.RBRACK:
			d--
		}
		last = off + 1
	}
	for i := last; i < len(depth); i++ {
		depth[i] = d
	}
	return depth
}
