package gen

import (
	"fmt"
	"go/ast"
	"go/parser"
	"go/token"
	"go/types"
	"sort"
	"strings"

	"pgregory.net/rapid"
)

// G-PROG: small type-correct multi-package programs generated as source text. A universe of
// library packages (import paths of every style, package names that collide or differ from the
// last path element, vendored paths) each exporting one member of every object kind, and root
// packages whose files import them in every shape (default / alias / dot / blank, one or several
// declarations) and use the members in every identifier role. Everything is type-checked with
// go/types through an in-memory importer before use; a failure is a generator bug (callers
// exclude and count it).

// Lib is one library package.
type Lib struct {
	ImportPath string // what import specs say
	FullPath   string // types.Package.Path(): differs for vendored packages
	Name       string // package name
	K          int    // member suffix
	Src        string
}

// Imp is one import spec of a file.
type Imp struct {
	Lib   int    // index into Prog.Libs
	Alias string // "" (default name), "_", ".", or an explicit name
}

// PFile is one generated file of a root package.
type PFile struct {
	Name    string
	PkgPath string
	PkgName string
	Imports []Imp
	Blocks  [][]int // grouping of Imports into import declarations (indices into Imports); single-element non-parenthesised when Paren[i] is false
	Paren   []bool
	Decls   []string // top-level declarations (source text), in order
	Src     string
}

// Prog is a generated program.
type Prog struct {
	Libs  []Lib
	Files []PFile
	Names map[string]string // accurate import path -> package name (by import path as written and by full path)
}

var libPathPool = []struct{ path, name string }{
	{"alpha", "alpha"},
	{"example.com/x/beta", "beta"},
	{"example.com/y/beta", "beta"}, // same name as the one above
	{"gopkg.in/yaml.v2", "yaml"},   // name != last element
	{"example.com/go-gamma", "gamma"},
	{"example.com/root/vendor/x.y/delta", "delta"}, // vendored: imported as "x.y/delta"
	{"lib/util", "util"},
	{"example.com/z/util", "util"},
	{"example.com/root/internal/eps", "eps"},
	{"fmtx", "fmt"},                                                     // name collides with a well-known name, path differs
	{"vendor/golang.org/x/net/idna", "idna"},                            // GOROOT-style vendoring: the path starts with vendor/
	{"corp/render.v2/util", "util"},                                     // a dot below the first path element, none in it
	{"example.com/root/vendor/example.com/mid/vendor/x.y/leaf", "leaf"}, // vendored by a vendored package
	{"example.com/shop/vendor", "vendor"},                               // the last path element is "vendor": nothing to strip
}

func libSrc(name string, k int) string {
	return fmt.Sprintf(`package %[1]s

// F%[2]d is a function.
func F%[2]d() int { return %[2]d }

func G%[2]d(x int) string { return "" }

var V%[2]d int

const C%[2]d = %[2]d

type T%[2]d struct {
	A int
	B string
}

func (T%[2]d) M() int { return 0 }

type I%[2]d interface{ M() int }

func Gen%[2]d[P any](x P) P { return x }

type Box%[2]d[P any] struct{ V P }

type E%[2]d int

const (
	X%[2]d E%[2]d = iota
	Y%[2]d
)

func (E%[2]d) String() string { return "" }

var S%[2]d T%[2]d

type W%[2]d struct {
	T%[2]d
	N int
}
`, name, k)
}

func stripVendorPath(p string) string {
	if i := strings.LastIndex(p, "/vendor/"); i >= 0 {
		return p[i+len("/vendor/"):]
	}
	return strings.TrimPrefix(p, "vendor/")
}

// localName returns the name by which file code refers to the package ("" for dot imports).
func (p *Prog) localName(im Imp) string {
	switch im.Alias {
	case "":
		return p.Libs[im.Lib].Name
	case ".":
		return ""
	}
	return im.Alias
}

func q(local, member string) string {
	if local == "" {
		return member
	}
	return local + "." + member
}

// useDecls produces declarations that use library lib through local name `local` (or bare for a
// dot import). u numbers the declarations so that names are unique inside the package.
func useDecls(t *rapid.T, local string, k int, u *int) []string {
	var out []string
	n := rapid.IntRange(1, 4).Draw(t, "nuse")
	for i := 0; i < n; i++ {
		*u++
		id := *u
		kind := rapid.IntRange(0, 22).Draw(t, "use")
		if i == 0 && kind == 7 {
			kind = 0 // the first use must really use the package (else: imported and not used)
		}
		switch kind {
		case 0:
			out = append(out, fmt.Sprintf("func u%d() int {\n\treturn %s()\n}", id, q(local, fmt.Sprintf("F%d", k))))
		case 1:
			out = append(out, fmt.Sprintf("var u%d = %s + %s", id, q(local, fmt.Sprintf("V%d", k)), q(local, fmt.Sprintf("C%d", k))))
		case 2:
			out = append(out, fmt.Sprintf("func u%d() int {\n\tx := %s{A: 1, B: \"s\"}\n\tf := x.M\n\treturn x.A + x.M() + f()\n}", id, q(local, fmt.Sprintf("T%d", k))))
		case 3:
			out = append(out, fmt.Sprintf("type u%d struct {\n\t%s\n\tn int\n}", id, q(local, fmt.Sprintf("T%d", k))))
		case 4:
			out = append(out, fmt.Sprintf("func u%d() %s {\n\tvar i %s = %s{}\n\treturn i\n}", id, q(local, fmt.Sprintf("I%d", k)), q(local, fmt.Sprintf("I%d", k)), q(local, fmt.Sprintf("T%d", k))))
		case 5:
			out = append(out, fmt.Sprintf("var u%d = %s[int](1)", id, q(local, fmt.Sprintf("Gen%d", k))))
		case 6:
			out = append(out, fmt.Sprintf("var u%d = %s[string]{V: \"s\"}", id, q(local, fmt.Sprintf("Box%d", k))))
		case 7:
			// shadowing: a parameter with the package's local name (or any name for dot imports)
			pn := local
			if pn == "" {
				pn = "shadow"
			}
			out = append(out, fmt.Sprintf("func u%d(%s int) int {\n\treturn %s + 1\n}", id, pn, pn))
		case 8:
			out = append(out, fmt.Sprintf("func u%d() {\n\tvar x []%s\n\tm := map[%s]%s{%s: \"x\"}\n\t_, _ = x, m\n}", id, q(local, fmt.Sprintf("T%d", k)), q(local, fmt.Sprintf("E%d", k)), "string", q(local, fmt.Sprintf("X%d", k))))
		case 9:
			out = append(out, fmt.Sprintf("func u%d(a %s, b ...%s) (r %s) {\n\tswitch a {\n\tcase %s, %s:\n\t\treturn %s\n\t}\n\treturn r\n}", id, q(local, fmt.Sprintf("E%d", k)), q(local, fmt.Sprintf("E%d", k)), q(local, fmt.Sprintf("E%d", k)), q(local, fmt.Sprintf("X%d", k)), q(local, fmt.Sprintf("Y%d", k)), q(local, fmt.Sprintf("Y%d", k))))
		case 10:
			out = append(out, fmt.Sprintf("func u%d() string {\nL:\n\tfor i := 0; i < %s; i++ {\n\t\tif i > 2 {\n\t\t\tbreak L\n\t\t}\n\t}\n\treturn %s(%s())\n}", id, q(local, fmt.Sprintf("C%d", k)), q(local, fmt.Sprintf("G%d", k)), q(local, fmt.Sprintf("F%d", k))))
		case 11:
			// the only reference sits in a type parameter list
			out = append(out, fmt.Sprintf("type u%d[P %s, Q any] struct {\n\tp P\n\tq Q\n}", id, q(local, fmt.Sprintf("I%d", k))))
		case 13:
			// qualified identifiers as elements of multi-line argument lists and literals
			out = append(out, fmt.Sprintf("func u%d() string {\n\treturn %s(\n\t\t%s,\n\t)\n}", id, q(local, fmt.Sprintf("G%d", k)), q(local, fmt.Sprintf("C%d", k))))
		case 14:
			out = append(out, fmt.Sprintf("var u%d = []interface{}{\n\t%s,\n\t%s,\n}", id, q(local, fmt.Sprintf("F%d", k)), q(local, fmt.Sprintf("V%d", k))))
		case 16:
			// a package-level variable / constant as the operand of a selector
			out = append(out, fmt.Sprintf("var u%d = %s.A + %s.M() + len(%s.String())", id, q(local, fmt.Sprintf("S%d", k)), q(local, fmt.Sprintf("S%d", k)), q(local, fmt.Sprintf("X%d", k))))
		case 17:
			// method expression and method value on a package-level type / variable
			out = append(out, fmt.Sprintf("var u%d, v%d = %s.M, %s.M", id, id, q(local, fmt.Sprintf("T%d", k)), q(local, fmt.Sprintf("S%d", k))))
		case 20:
			// a parameter named like the package, of a type from that package, and a selector on it:
			// inside the body the name is the parameter, not the package
			if local == "" {
				out = append(out, fmt.Sprintf("func u%d(shadow %s) int {\n\treturn shadow.M() + shadow.A\n}", id, q(local, fmt.Sprintf("T%d", k))))
			} else {
				out = append(out, fmt.Sprintf("func u%d(%s %s) int {\n\treturn %s.M() + %s.A\n}", id, local, q(local, fmt.Sprintf("T%d", k)), local, local))
			}
		case 21:
			// keyed literal of a struct with an embedded field: the key is a field name that is spelled
			// like a type of the package
			out = append(out, fmt.Sprintf("var u%d = %s{T%d: %s{A: 1}, N: 2}", id, q(local, fmt.Sprintf("W%d", k)), k, q(local, fmt.Sprintf("T%d", k))))
		case 18, 19:
			// self-contained statements, each tagged by a string literal, that can be moved into
			// any other function body
			out = append(out, fmt.Sprintf("func u%d() {\n\t_, _ = \"tag%d_1\", %s()\n\t_, _ = \"tag%d_2\", %s+%s\n\tvar _ = []interface{}{\"tag%d_3\", %s{}, %s}\n\tif %s > 0 {\n\t\t_ = \"tag%d_4\"\n\t}\n}",
				id, id, q(local, fmt.Sprintf("F%d", k)), id, q(local, fmt.Sprintf("V%d", k)), q(local, fmt.Sprintf("C%d", k)), id, q(local, fmt.Sprintf("T%d", k)), q(local, fmt.Sprintf("X%d", k)), q(local, fmt.Sprintf("V%d", k)), id))
		case 12:
			out = append(out, fmt.Sprintf("func u%d[P %s](p P) int {\n\treturn p.M()\n}", id, q(local, fmt.Sprintf("I%d", k))))
		default:
			out = append(out, fmt.Sprintf("var u%d interface{} = (*%s)(nil)", id, q(local, fmt.Sprintf("T%d", k))))
		}
	}
	return out
}

// localDecls are declarations that use only local and universe names.
func localDecls(t *rapid.T, u *int) []string {
	var out []string
	n := rapid.IntRange(0, 3).Draw(t, "nlocal")
	for i := 0; i < n; i++ {
		*u++
		id := *u
		switch rapid.IntRange(0, 3).Draw(t, "local") {
		case 0:
			out = append(out, fmt.Sprintf("type l%d struct {\n\tA int\n\tM string\n}\n\nfunc (x l%d) Get() int { return x.A + len(x.M) }", id, id))
		case 1:
			out = append(out, fmt.Sprintf("func l%d(n int) (out []byte) {\n\tfor i := range make([]int, n) {\n\t\tout = append(out, byte(i))\n\t}\n\treturn out\n}", id))
		case 2:
			out = append(out, fmt.Sprintf("const l%d = iota + len(\"x\")", id))
		default:
			out = append(out, fmt.Sprintf("var l%d = struct{ A, B int }{A: 1, B: 2}", id))
		}
	}
	return out
}

// GenProg generates a program with nRoot root packages ("example.com/root", "example.com/other").
func GenProg(t *rapid.T, nRoot int, maxFiles int) *Prog {
	p := &Prog{Names: map[string]string{}}
	nl := rapid.IntRange(2, 6).Draw(t, "nlibs")
	perm := rapid.Permutation(libPathPool).Draw(t, "libs")
	for i := 0; i < nl; i++ {
		full := perm[i].path
		l := Lib{FullPath: full, ImportPath: stripVendorPath(full), Name: perm[i].name, K: i + 1}
		l.Src = libSrc(l.Name, l.K)
		p.Libs = append(p.Libs, l)
		p.Names[l.ImportPath] = l.Name
		p.Names[l.FullPath] = l.Name
	}
	roots := []struct{ path, name string }{{"example.com/root", "root"}, {"example.com/other", "other"}}
	p.Names["example.com/root"], p.Names["example.com/other"] = "root", "other"
	u := 0
	for r := 0; r < nRoot; r++ {
		nf := rapid.IntRange(1, maxFiles).Draw(t, "nfiles")
		for fi := 0; fi < nf; fi++ {
			f := PFile{Name: fmt.Sprintf("%s_%d.go", roots[r].name, fi), PkgPath: roots[r].path, PkgName: roots[r].name}
			// choose imports
			usedNames := map[string]bool{}
			hasDot := false
			for li := range p.Libs {
				if rapid.IntRange(0, 2).Draw(t, "imp") == 0 {
					continue
				}
				im := Imp{Lib: li}
				switch rapid.IntRange(0, 7).Draw(t, "alias") {
				case 0:
					im.Alias = fmt.Sprintf("al%d", li)
				case 1:
					if !hasDot { // two dot imports are fine for go/types but keep member names distinct anyway
						im.Alias = "."
						hasDot = true
					}
				case 2:
					im.Alias = "_"
				case 3:
					im.Alias = p.Libs[li].Name // explicit alias equal to the package name
				case 4:
					// aliased to the name of ANOTHER library (which this file may not import)
					other := p.Libs[rapid.IntRange(0, len(p.Libs)-1).Draw(t, "othername")]
					if other.Name != p.Libs[li].Name {
						im.Alias = other.Name
					}
				}
				name := p.localName(im)
				if im.Alias != "_" && im.Alias != "." {
					if usedNames[name] {
						im.Alias = fmt.Sprintf("al%d", li)
						name = im.Alias
					}
					usedNames[name] = true
				}
				f.Imports = append(f.Imports, im)
			}
			// group into declarations
			var cur []int
			for i := range f.Imports {
				cur = append(cur, i)
				if rapid.IntRange(0, 3).Draw(t, "split") == 0 {
					f.Blocks = append(f.Blocks, cur)
					cur = nil
				}
			}
			if len(cur) > 0 {
				f.Blocks = append(f.Blocks, cur)
			}
			for _, b := range f.Blocks {
				f.Paren = append(f.Paren, len(b) > 1 || rapid.Bool().Draw(t, "paren"))
			}
			// declarations
			for _, im := range f.Imports {
				if im.Alias == "_" {
					continue
				}
				f.Decls = append(f.Decls, useDecls(t, p.localName(im), p.Libs[im.Lib].K, &u)...)
			}
			f.Decls = append(f.Decls, localDecls(t, &u)...)
			if len(f.Decls) > 1 {
				f.Decls = rapid.Permutation(f.Decls).Draw(t, "order")
			}
			f.Src = p.render(f)
			p.Files = append(p.Files, f)
		}
	}
	return p
}

func (p *Prog) render(f PFile) string {
	var sb strings.Builder
	sb.WriteString("package " + f.PkgName + "\n\n")
	for bi, b := range f.Blocks {
		spec := func(i int) string {
			im := f.Imports[i]
			s := ""
			if im.Alias != "" {
				s = im.Alias + " "
			}
			return s + `"` + p.Libs[im.Lib].ImportPath + `"`
		}
		if !f.Paren[bi] {
			sb.WriteString("import " + spec(b[0]) + "\n")
			continue
		}
		// gofmt sorts specs of a block by path: emit them sorted so that the text is canonical
		idx := append([]int(nil), b...)
		sort.Slice(idx, func(x, y int) bool {
			return p.Libs[f.Imports[idx[x]].Lib].ImportPath < p.Libs[f.Imports[idx[y]].Lib].ImportPath
		})
		sb.WriteString("import (\n")
		for _, i := range idx {
			sb.WriteString("\t" + spec(i) + "\n")
		}
		sb.WriteString(")\n")
	}
	if len(f.Blocks) > 0 {
		sb.WriteString("\n")
	}
	for _, d := range f.Decls {
		sb.WriteString(d + "\n\n")
	}
	return sb.String()
}

// memImporter serves the library packages to go/types.
type memImporter struct {
	pkgs map[string]*types.Package // by import path as written
}

func (m *memImporter) Import(path string) (*types.Package, error) {
	if p, ok := m.pkgs[path]; ok {
		return p, nil
	}
	return nil, fmt.Errorf("package %q not in the generated universe", path)
}

// Checked is the result of parsing and type-checking one root package.
type Checked struct {
	Fset  *token.FileSet
	Files map[string]*ast.File
	Info  *types.Info
	Pkg   *types.Package
}

// Importer type-checks the library packages and returns an importer for them.
func (p *Prog) Importer() (types.Importer, error) {
	m := &memImporter{pkgs: map[string]*types.Package{}}
	for _, l := range p.Libs {
		fset := token.NewFileSet()
		f, err := parser.ParseFile(fset, l.Name+".go", l.Src, 0)
		if err != nil {
			return nil, err
		}
		conf := types.Config{}
		pkg, err := conf.Check(l.FullPath, fset, []*ast.File{f}, nil)
		if err != nil {
			return nil, err
		}
		m.pkgs[l.ImportPath] = pkg
	}
	return m, nil
}

// CheckSources parses and type-checks the given files (name -> source) as package pkgPath.
func (p *Prog) CheckSources(imp types.Importer, pkgPath string, srcs map[string]string) (*Checked, error) {
	c := &Checked{Fset: token.NewFileSet(), Files: map[string]*ast.File{}}
	var names []string
	for n := range srcs {
		names = append(names, n)
	}
	sort.Strings(names)
	var files []*ast.File
	for _, n := range names {
		f, err := parser.ParseFile(c.Fset, n, srcs[n], parser.ParseComments)
		if err != nil {
			return nil, err
		}
		c.Files[n] = f
		files = append(files, f)
	}
	c.Info = &types.Info{Uses: map[*ast.Ident]types.Object{}, Defs: map[*ast.Ident]types.Object{}, Selections: map[*ast.SelectorExpr]*types.Selection{}}
	conf := types.Config{Importer: imp, FakeImportC: true} // (files may import "C"; nothing of it is used)
	pkg, err := conf.Check(pkgPath, c.Fset, files, c.Info)
	if err != nil {
		return nil, err
	}
	c.Pkg = pkg
	return c, nil
}

// RootSources returns the sources of one root package.
func (p *Prog) RootSources(pkgPath string) map[string]string {
	out := map[string]string{}
	for _, f := range p.Files {
		if f.PkgPath == pkgPath {
			out[f.Name] = f.Src
		}
	}
	return out
}

// StripVendor is the reference implementation of vendor-prefix removal used by the oracles.
func StripVendor(path string) string { return stripVendorPath(path) }

// Requote rewrites some import paths of a generated source as raw string literals or with an
// escape sequence inside the interpreted string: both are legal Go and gofmt keeps them.
func Requote(t *rapid.T, libs []Lib, src string) (string, bool) {
	changed := false
	for _, l := range libs {
		old := "\"" + l.ImportPath + "\""
		if !strings.Contains(src, old) {
			continue
		}
		switch rapid.IntRange(0, 3).Draw(t, "requote") {
		case 0:
			src = strings.Replace(src, old, "`"+l.ImportPath+"`", 1)
			changed = true
		case 1:
			if i := strings.IndexAny(l.ImportPath, "/."); i >= 0 {
				esc := fmt.Sprintf("\\x%02x", l.ImportPath[i])
				src = strings.Replace(src, old, "\""+l.ImportPath[:i]+esc+l.ImportPath[i+1:]+"\"", 1)
				changed = true
			}
		}
	}
	return src, changed
}
