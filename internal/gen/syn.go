// Package gen holds the generators shared by the checks. Every random choice is drawn from
// rapid so that a case is a pure function of the seed, shrinks and replays.
package gen

import (
	"fmt"
	"strings"

	"pgregory.net/rapid"
)

// Syn is G-SYN: a grammar-based generator of syntactically valid Go source text. It does not
// use dst and does not try to be type-correct; validity is by construction (checked by callers
// with go/parser; a parse failure is a generator bug and is excluded and counted).
type Syn struct {
	t      *rapid.T
	budget int
	nlabel int
	labels []string // labels of enclosing labeled statements (targets for break/continue/goto)
	loops  int      // nesting depth of for loops (for continue)
	brk    int      // nesting of breakable statements
	inHdr  int      // >0 while generating a statement header: composite literals get parenthesised
	Kinds  map[string]int
}

// SynFile generates one Go file with roughly size syntax nodes.
func SynFile(t *rapid.T, size int) (string, map[string]int) {
	g := &Syn{t: t, budget: size, Kinds: map[string]int{}}
	return g.file(), g.Kinds
}

func (g *Syn) n(k int) int {
	if k <= 1 {
		return 0
	}
	return rapid.IntRange(0, k-1).Draw(g.t, "c")
}

func (g *Syn) rng(lo, hi int) int {
	if hi <= lo {
		return lo
	}
	return rapid.IntRange(lo, hi).Draw(g.t, "n")
}

func (g *Syn) flip() bool { return rapid.Bool().Draw(g.t, "b") }

func (g *Syn) pick(xs ...string) string { return xs[g.n(len(xs))] }

func (g *Syn) k(name string) { g.Kinds[name]++ }

func (g *Syn) spend() bool {
	g.budget--
	return g.budget > 0
}

var (
	valNames  = []string{"a", "b", "c", "x", "y", "z", "foo", "bar", "err", "ok", "i", "n", "_"}
	typeNames = []string{"T", "U", "V", "MyT", "int", "string", "bool", "error", "byte", "any", "float64"}
	pkgNames  = []string{"fmt", "os", "strings", "pkg", "io"}
	selNames  = []string{"F", "G", "Println", "Name", "Len", "x", "Close"}
	importSet = []string{"fmt", "os", "strings", "io", "a/pkg", "example.com/b/pkg", "unsafe", "net/http", "gopkg.in/yaml.v2"}
)

func (g *Syn) val() string  { return valNames[g.n(len(valNames)-1)] } // never "_" as an operand
func (g *Syn) lval() string { return valNames[g.n(len(valNames))] }
func (g *Syn) tname() string {
	return typeNames[g.n(len(typeNames))]
}

func (g *Syn) file() string {
	var sb strings.Builder
	sb.WriteString("package " + g.pick("p", "main", "foo_test") + "\n\n")
	// imports
	nimp := g.n(4)
	if nimp > 2 {
		nimp = 1
	}
	used := map[string]bool{}
	for i := 0; i < nimp; i++ {
		g.k("decl:import")
		grouped := g.flip()
		cnt := 1
		if grouped {
			cnt = g.rng(0, 4)
		}
		var specs []string
		for j := 0; j < cnt; j++ {
			p := importSet[g.n(len(importSet))]
			if used[p] {
				continue
			}
			used[p] = true
			alias := ""
			switch g.n(8) {
			case 0:
				alias = "_ "
			case 1:
				alias = ". "
			case 2:
				alias = g.pick("xx", "yy", "zz") + " "
			}
			specs = append(specs, alias+`"`+p+`"`)
		}
		if grouped {
			sb.WriteString("import (\n")
			for j, s := range specs {
				if j > 0 && g.n(4) == 0 {
					sb.WriteString("\n")
				}
				sb.WriteString("\t" + s + "\n")
			}
			sb.WriteString(")\n\n")
		} else if len(specs) == 1 {
			sb.WriteString("import " + specs[0] + "\n\n")
		}
	}
	ndecl := g.rng(1, 8)
	for i := 0; i < ndecl && g.budget > 0; i++ {
		sb.WriteString(g.decl())
		if g.n(5) > 0 {
			sb.WriteString("\n")
		}
	}
	return sb.String()
}

func (g *Syn) decl() string {
	switch g.n(10) {
	case 0:
		return g.genDecl("const")
	case 1, 2:
		return g.genDecl("var")
	case 3, 4:
		return g.genDecl("type")
	default:
		return g.funcDecl()
	}
}

func (g *Syn) genDecl(tok string) string {
	g.k("decl:" + tok)
	grouped := g.n(3) == 0
	n := 1
	if grouped {
		n = g.rng(0, 4)
		g.k("decl:grouped")
	}
	var specs []string
	for i := 0; i < n; i++ {
		switch tok {
		case "const":
			specs = append(specs, g.constSpec(i, grouped))
		case "var":
			specs = append(specs, g.varSpec())
		case "type":
			specs = append(specs, g.typeSpec())
		}
	}
	if !grouped {
		return tok + " " + specs[0] + "\n"
	}
	var sb strings.Builder
	sb.WriteString(tok + " (\n")
	for i, s := range specs {
		if i > 0 && g.n(4) == 0 {
			sb.WriteString("\n")
		}
		sb.WriteString("\t" + s + "\n")
	}
	sb.WriteString(")\n")
	return sb.String()
}

func (g *Syn) names(lo, hi int) string {
	n := g.rng(lo, hi)
	var xs []string
	for i := 0; i < n; i++ {
		xs = append(xs, g.lval())
	}
	return strings.Join(xs, ", ")
}

func (g *Syn) exprs(lo, hi, d int) string {
	n := g.rng(lo, hi)
	var xs []string
	for i := 0; i < n; i++ {
		xs = append(xs, g.expr(d))
	}
	return strings.Join(xs, ", ")
}

func (g *Syn) constSpec(i int, grouped bool) string {
	g.k("spec:const")
	if grouped && i > 0 && g.flip() {
		return g.lval() // implicit repetition (iota groups)
	}
	s := g.names(1, 2)
	if g.n(3) == 0 {
		s += " " + g.tname()
	}
	if grouped && g.n(3) == 0 {
		g.k("expr:iota")
		return s + " = iota"
	}
	return s + " = " + g.exprs(1, 1, 1)
}

func (g *Syn) varSpec() string {
	g.k("spec:var")
	s := g.names(1, 3)
	switch g.n(3) {
	case 0:
		return s + " " + g.typ(2)
	case 1:
		return s + " = " + g.exprs(1, 2, 2)
	default:
		return s + " " + g.typ(1) + " = " + g.exprs(1, 2, 2)
	}
}

func (g *Syn) typeParams() string {
	g.k("typeparams")
	n := g.rng(1, 3)
	var ps []string
	for i := 0; i < n; i++ {
		name := g.pick("P", "Q", "K", "E")
		if g.n(4) == 0 {
			name += ", " + g.pick("R", "S")
		}
		var c string
		switch g.n(6) {
		case 0:
			c = "any"
		case 1:
			c = "comparable"
		case 2:
			g.k("type:union")
			c = "~int | ~string"
		case 3:
			c = "interface{ ~int | string; M() }"
		case 4:
			c = "fmt.Stringer"
		default:
			c = "int | float64"
		}
		ps = append(ps, name+" "+c)
	}
	return "[" + strings.Join(ps, ", ") + "]"
}

func (g *Syn) typeSpec() string {
	g.k("spec:type")
	name := g.pick("T", "U", "V", "MyT", "Node", "G")
	switch g.n(6) {
	case 0:
		g.k("type:alias")
		return name + " = " + g.typ(2)
	case 1:
		return name + g.typeParams() + " " + g.typ(2)
	case 2:
		return name + " " + g.structType(2)
	case 3:
		return name + " " + g.ifaceType(2)
	default:
		return name + " " + g.typ(2)
	}
}

func (g *Syn) structType(d int) string {
	g.k("type:struct")
	n := g.rng(0, 4)
	if n == 0 {
		return "struct{}"
	}
	var sb strings.Builder
	sb.WriteString("struct {\n")
	for i := 0; i < n; i++ {
		switch g.n(5) {
		case 0:
			g.k("field:embedded")
			sb.WriteString(g.pick("T", "*T", "pkg.T", "*pkg.T", "G[int]"))
		case 1:
			sb.WriteString(g.names(2, 3) + " " + g.typ(d-1))
		default:
			sb.WriteString(g.lval() + " " + g.typ(d-1))
		}
		if g.n(4) == 0 {
			g.k("field:tag")
			sb.WriteString(" " + g.pick("`json:\"a\"`", `"tag"`))
		}
		sb.WriteString("\n")
		if g.n(6) == 0 {
			sb.WriteString("\n")
		}
	}
	sb.WriteString("}")
	return sb.String()
}

func (g *Syn) ifaceType(d int) string {
	g.k("type:interface")
	n := g.rng(0, 4)
	if n == 0 {
		return "interface{}"
	}
	var sb strings.Builder
	sb.WriteString("interface {\n")
	for i := 0; i < n; i++ {
		switch g.n(5) {
		case 0:
			sb.WriteString(g.pick("fmt.Stringer", "error", "T", "G[int]"))
		case 1:
			g.k("type:union")
			sb.WriteString(g.pick("~int | ~string", "int | string | T", "~[]byte"))
		default:
			sb.WriteString(g.pick("M", "Read", "Close", "String") + g.signature(d-1))
		}
		sb.WriteString("\n")
	}
	sb.WriteString("}")
	return sb.String()
}

// signature returns "(params) results".
func (g *Syn) signature(d int) string {
	var ps []string
	n := g.rng(0, 3)
	named := g.flip()
	for i := 0; i < n; i++ {
		p := ""
		if named {
			p = g.lval()
			if g.n(4) == 0 {
				p += ", " + g.lval()
			}
			p += " "
		}
		if i == n-1 && g.n(4) == 0 {
			g.k("param:variadic")
			p += "..."
		}
		ps = append(ps, p+g.typ(d))
	}
	s := "(" + strings.Join(ps, ", ") + ")"
	switch g.n(16) {
	case 0, 1, 2:
		s += " " + g.typ(d)
	case 3, 4, 5:
		s += " (" + g.typ(d) + ", error)"
	case 6, 7, 8:
		g.k("results:named")
		s += " (" + g.lval() + " " + g.typ(d) + ", err error)"
	case 9:
		// an empty result list: legal, gofmt removes the parentheses, go/parser keeps an empty FieldList
		g.k("results:empty-parens")
		s += " ()"
	}
	return s
}

func (g *Syn) typ(d int) string {
	if d <= 0 || !g.spend() {
		return g.tname()
	}
	switch g.n(16) {
	case 0:
		return g.tname()
	case 1:
		g.k("type:qualified")
		return g.pick(pkgNames...) + "." + g.pick("T", "Reader", "File")
	case 2:
		g.k("type:star")
		return "*" + g.typ(d-1)
	case 3:
		g.k("type:slice")
		return "[]" + g.typ(d-1)
	case 4:
		g.k("type:array")
		return "[" + g.pick("2", "N", "len(x)", "1 << 3") + "]" + g.typ(d-1)
	case 5:
		g.k("type:map")
		return "map[" + g.typ(d-1) + "]" + g.typ(d-1)
	case 6:
		g.k("type:chan")
		return g.pick("chan ", "<-chan ", "chan<- ") + g.chanElem(d-1)
	case 7:
		g.k("type:func")
		return "func" + g.signature(d-1)
	case 8:
		return g.structType(d - 1)
	case 9:
		return g.ifaceType(d - 1)
	case 10:
		g.k("type:generic-inst")
		return g.pick("G", "pkg.G") + "[" + g.typ(d-1) + g.pick("", ", "+g.tname()) + "]"
	case 11:
		g.k("type:paren")
		return "(" + g.typ(d-1) + ")"
	default:
		return g.tname()
	}
}

// chanElem avoids the `chan <-chan T` ambiguity by parenthesising arrow-leading element types.
func (g *Syn) chanElem(d int) string {
	e := g.typ(d)
	if strings.HasPrefix(e, "<-") {
		return "(" + e + ")"
	}
	return e
}

func (g *Syn) funcDecl() string {
	g.k("decl:func")
	var sb strings.Builder
	sb.WriteString("func ")
	method := g.n(3) == 0
	if method {
		g.k("decl:method")
		sb.WriteString(g.pick("(t T) ", "(t *T) ", "(T) ", "(g *G[P, Q]) ", "(_ *pkg.T) "))
	}
	name := g.pick("f", "g", "main", "String", "Do", "init")
	sb.WriteString(name)
	if !method && g.n(5) == 0 {
		sb.WriteString(g.typeParams())
	}
	sb.WriteString(g.signature(2))
	if g.n(12) == 0 {
		g.k("decl:func-nobody")
		return sb.String() + "\n"
	}
	saveL, saveN := g.labels, g.nlabel
	g.labels, g.loops, g.brk = nil, 0, 0
	sb.WriteString(" " + g.block(4) + "\n")
	g.labels, g.nlabel = saveL, saveN
	return sb.String()
}

func (g *Syn) block(d int) string {
	n := g.rng(0, 6)
	if d <= 0 || g.budget <= 0 {
		n = 0
	}
	if n == 0 {
		return "{\n}"
	}
	var sb strings.Builder
	sb.WriteString("{\n")
	for i := 0; i < n; i++ {
		sb.WriteString(g.stmt(d-1) + "\n")
		if g.n(6) == 0 {
			sb.WriteString("\n")
		}
	}
	sb.WriteString("}")
	return sb.String()
}

// hdr generates text for a statement header, where a composite literal would be ambiguous with
// the block: composite() parenthesises itself while inHdr > 0.
func (g *Syn) hdr(f func() string) string {
	g.inHdr++
	defer func() { g.inHdr-- }()
	return f()
}

func (g *Syn) simpleStmt(d int) string {
	switch g.n(7) {
	case 0:
		g.k("stmt:define")
		return g.names(1, 2) + " := " + g.expr(d)
	case 1:
		g.k("stmt:assign")
		return g.lhs(d) + " " + g.pick("=", "+=", "-=", "*=", "/=", "%=", "&=", "|=", "^=", "<<=", ">>=", "&^=") + " " + g.expr(d)
	case 2:
		g.k("stmt:assign-multi")
		return g.lhs(d) + ", " + g.lhs(d) + " = " + g.expr(d) + ", " + g.expr(d)
	case 3:
		g.k("stmt:incdec")
		return g.lhs(d) + g.pick("++", "--")
	case 4:
		g.k("stmt:send")
		return g.val() + " <- " + g.expr(d)
	case 5:
		g.k("stmt:recv-expr")
		return "<-" + g.val()
	default:
		g.k("stmt:expr")
		return g.call(d)
	}
}

func (g *Syn) lhs(d int) string {
	switch g.n(6) {
	case 0:
		return g.val() + "[" + g.expr(d-1) + "]"
	case 1:
		return "*" + g.val()
	case 2:
		return g.val() + "." + g.pick(selNames...)
	default:
		return g.lval()
	}
}

func (g *Syn) call(d int) string {
	g.k("expr:call")
	fun := g.pick("f", "g", "fmt.Println", "pkg.F", "t.M", "x.y.z", "new", "make", "append", "panic", "len")
	if g.n(8) == 0 {
		g.k("expr:call-funclit")
		fun = g.funcLit(d - 1)
	}
	if g.n(10) == 0 {
		g.k("expr:index-list")
		fun = g.pick("f", "pkg.F") + "[" + g.typ(1) + g.pick("", ", "+g.tname()) + "]"
	}
	if g.n(5) == 0 {
		// arguments one per line, closing parenthesis on its own line
		g.k("expr:call-multiline")
		n := g.rng(1, 3)
		var xs []string
		for i := 0; i < n; i++ {
			xs = append(xs, g.expr(d-1))
		}
		return fun + "(\n" + strings.Join(xs, ",\n") + ",\n)"
	}
	args := g.exprs(0, 3, d-1)
	if g.n(8) == 0 {
		g.k("expr:call-ellipsis")
		if args != "" {
			args += ", "
		}
		args += g.val() + "..."
	}
	return fun + "(" + args + ")"
}

func (g *Syn) funcLit(d int) string {
	g.k("expr:funclit")
	sl, slo, sb, sh := g.labels, g.loops, g.brk, g.inHdr
	g.labels, g.loops, g.brk, g.inHdr = nil, 0, 0, 0
	s := "func" + g.signature(1) + " " + g.block(d)
	g.labels, g.loops, g.brk, g.inHdr = sl, slo, sb, sh
	return s
}

func (g *Syn) stmt(d int) string {
	if d <= 0 || !g.spend() {
		return g.simpleStmt(1)
	}
	switch g.n(24) {
	case 0, 1, 2, 3:
		return g.simpleStmt(2)
	case 4:
		g.k("stmt:decl")
		return strings.TrimRight(g.genDecl(g.pick("var", "const", "type")), "\n")
	case 5:
		g.k("stmt:go-defer")
		return g.pick("go ", "defer ") + g.call(2)
	case 6:
		g.k("stmt:return")
		return "return " + g.exprs(0, 2, 2)
	case 7, 8:
		return g.ifStmt(d)
	case 9, 10:
		return g.forStmt(d)
	case 11:
		return g.switchStmt(d)
	case 12:
		return g.typeSwitch(d)
	case 13:
		return g.selectStmt(d)
	case 14:
		g.k("stmt:block")
		return g.block(d)
	case 15:
		return g.labeled(d)
	case 16:
		// branch statements
		if len(g.labels) > 0 && g.flip() {
			g.k("stmt:branch-label")
			l := g.labels[g.n(len(g.labels))]
			return g.pick("goto ", "break ", "continue ") + l
		}
		if g.loops > 0 {
			g.k("stmt:branch")
			return g.pick("break", "continue")
		}
		if g.brk > 0 {
			g.k("stmt:branch")
			return "break"
		}
		return g.simpleStmt(1)
	case 17:
		g.k("stmt:return")
		return "return"
	default:
		return g.simpleStmt(2)
	}
}

func (g *Syn) labeled(d int) string {
	g.k("stmt:labeled")
	g.nlabel++
	l := fmt.Sprintf("L%d", g.nlabel)
	g.labels = append(g.labels, l)
	var body string
	switch g.n(4) {
	case 0:
		body = g.forStmt(d)
	case 1:
		body = g.switchStmt(d)
	case 2:
		body = g.block(d)
	default:
		body = g.forStmt(d)
	}
	g.labels = g.labels[:len(g.labels)-1]
	return l + ":\n" + body
}

func (g *Syn) ifStmt(d int) string {
	g.k("stmt:if")
	s := "if "
	if g.n(3) == 0 {
		g.k("stmt:if-init")
		s += g.hdr(func() string { return g.simpleStmt(1) }) + "; "
	}
	s += g.hdr(func() string { return g.expr(2) }) + " " + g.block(d)
	switch g.n(4) {
	case 0:
		g.k("stmt:else")
		s += " else " + g.block(d)
	case 1:
		g.k("stmt:else-if")
		s += " else " + g.ifStmt(d-1)
	}
	return s
}

func (g *Syn) forStmt(d int) string {
	g.loops++
	g.brk++
	defer func() { g.loops--; g.brk-- }()
	switch g.n(10) {
	case 0:
		g.k("stmt:for-ever")
		return "for " + g.block(d)
	case 1:
		g.k("stmt:for-cond")
		return "for " + g.hdr(func() string { return g.expr(2) }) + " " + g.block(d)
	case 2, 3:
		g.k("stmt:for-3")
		init, cond, post := "", "", ""
		if g.flip() {
			init = g.pick("i := 0", "i, j := 0, 1", "i = 0")
		}
		if g.flip() {
			cond = " " + g.hdr(func() string { return g.expr(1) })
		}
		if g.flip() {
			post = " " + g.pick("i++", "i += 2", "i, j = j, i")
		}
		return "for " + init + ";" + cond + ";" + post + " " + g.block(d)
	case 4:
		g.k("stmt:range-0")
		return "for range " + g.hdr(func() string { return g.expr(1) }) + " " + g.block(d)
	case 5:
		g.k("stmt:range-1")
		return "for " + g.lval() + " " + g.pick(":=", "=") + " range " + g.hdr(func() string { return g.expr(1) }) + " " + g.block(d)
	case 6, 7:
		g.k("stmt:range-2")
		return "for " + g.lval() + ", " + g.lval() + " " + g.pick(":=", "=") + " range " + g.hdr(func() string { return g.expr(1) }) + " " + g.block(d)
	case 8:
		g.k("stmt:range-int")
		return "for i := range 10 " + g.block(d)
	default:
		g.k("stmt:for-cond")
		return "for " + g.hdr(func() string { return g.expr(1) }) + " " + g.block(d)
	}
}

func (g *Syn) caseBody(d int) string {
	n := g.rng(0, 3)
	var sb strings.Builder
	for i := 0; i < n; i++ {
		sb.WriteString(g.stmt(d-1) + "\n")
	}
	return sb.String()
}

func (g *Syn) switchStmt(d int) string {
	g.k("stmt:switch")
	g.brk++
	defer func() { g.brk-- }()
	s := "switch "
	if g.n(4) == 0 {
		s += g.hdr(func() string { return g.simpleStmt(1) }) + "; "
	}
	if g.n(3) > 0 {
		s += g.hdr(func() string { return g.expr(1) }) + " "
	}
	s += "{\n"
	n := g.rng(0, 3)
	def := g.n(n + 2)
	for i := 0; i < n; i++ {
		if i == def {
			g.k("clause:default")
			s += "default:\n" + g.caseBody(d)
		}
		g.k("clause:case")
		s += "case " + g.hdr(func() string { return g.exprs(1, 3, 1) }) + ":\n" + g.caseBody(d)
		if i < n-1 && g.n(5) == 0 {
			g.k("stmt:fallthrough")
			s += "fallthrough\n"
		}
	}
	return s + "}"
}

func (g *Syn) typeSwitch(d int) string {
	g.k("stmt:typeswitch")
	g.brk++
	defer func() { g.brk-- }()
	s := "switch "
	if g.n(4) == 0 {
		s += "x := f(); "
	}
	if g.flip() {
		g.k("stmt:typeswitch-bind")
		s += g.val() + " := "
	}
	s += g.val() + ".(type) {\n"
	n := g.rng(0, 3)
	for i := 0; i < n; i++ {
		g.k("clause:case")
		var ts []string
		for j, m := 0, g.rng(1, 3); j < m; j++ {
			ts = append(ts, g.pick("int", "string", "nil", "*T", "[]byte", "pkg.T", "func()", "error"))
		}
		s += "case " + strings.Join(ts, ", ") + ":\n" + g.caseBody(d)
	}
	if g.flip() {
		g.k("clause:default")
		s += "default:\n" + g.caseBody(d)
	}
	return s + "}"
}

func (g *Syn) selectStmt(d int) string {
	g.k("stmt:select")
	g.brk++
	defer func() { g.brk-- }()
	s := "select {\n"
	n := g.rng(0, 3)
	for i := 0; i < n; i++ {
		g.k("clause:comm")
		switch g.n(5) {
		case 0:
			s += "case " + g.val() + " := <-" + g.val() + ":\n"
		case 1:
			s += "case " + g.val() + ", ok := <-" + g.val() + ":\n"
		case 2:
			s += "case " + g.val() + " <- " + g.expr(1) + ":\n"
		case 3:
			s += "case <-" + g.val() + ":\n"
		default:
			s += "case " + g.val() + " = <-" + g.val() + ":\n"
		}
		s += g.caseBody(d)
	}
	if g.flip() {
		g.k("clause:default")
		s += "default:\n" + g.caseBody(d)
	}
	return s + "}"
}

var binOps = []string{"+", "-", "*", "/", "%", "&", "|", "^", "<<", ">>", "&^", "&&", "||", "==", "!=", "<", "<=", ">", ">="}

func (g *Syn) leaf() string {
	switch g.n(14) {
	case 0:
		g.k("lit:int")
		return g.pick("0", "1", "42", "0x1F", "0b101", "1_000", "0o17")
	case 1:
		g.k("lit:float")
		return g.pick("1.5", "1e3", ".5", "0x1p-2")
	case 2:
		g.k("lit:imag")
		return g.pick("2i", "1.5i")
	case 3:
		g.k("lit:char")
		return g.pick("'a'", `'\n'`, `'\''`, `'\x00'`, `'世'`)
	case 4:
		g.k("lit:string")
		return g.pick(`"s"`, `""`, `"a\"b"`, `"// not a comment"`, `"/* nor this */"`, `"日本"`)
	case 5:
		g.k("lit:raw")
		return g.pick("`r`", "`a\"b`", "`// x`")
	case 6:
		g.k("lit:raw-multiline")
		return g.pick("`a\nb`", "`\n\tx\n\n  y\n`", "`line1\n// fake comment\n`")
	case 7:
		return g.pick("nil", "true", "false", "iota")
	default:
		return g.val()
	}
}

func startsWithOp(s string) bool {
	return s != "" && strings.ContainsRune("+-&^!*<", rune(s[0]))
}

// primary returns an expression that can take postfix operators.
func (g *Syn) primary(d int) string {
	e := g.expr(d)
	if isPrimary(e) {
		return e
	}
	return "(" + e + ")"
}

// isPrimary is a conservative syntactic test: identifiers, selectors and balanced postfix forms.
func isPrimary(e string) bool {
	if e == "" {
		return false
	}
	depth := 0
	for i, r := range e {
		switch r {
		case '(', '[', '{':
			depth++
		case ')', ']', '}':
			depth--
		case ' ', '`', '"', '\'', '\n':
			if depth == 0 {
				return false
			}
		case '+', '-', '*', '/', '%', '&', '|', '^', '<', '>', '!', '=':
			if depth == 0 {
				return false
			}
		}
		_ = i
	}
	c := e[0]
	return c == '_' || c >= 'a' && c <= 'z' || c >= 'A' && c <= 'Z' || c == '('
}

func (g *Syn) expr(d int) string {
	if d <= 0 || !g.spend() {
		return g.leaf()
	}
	switch g.n(26) {
	case 0, 1, 2:
		return g.leaf()
	case 3, 4, 5:
		g.k("expr:binary")
		return g.expr(d-1) + " " + binOps[g.n(len(binOps))] + " " + g.expr(d-1)
	case 6:
		g.k("expr:unary")
		op := g.pick("-", "!", "^", "+", "&", "<-")
		x := g.expr(d - 1)
		if startsWithOp(x) || !isPrimary(x) && op == "&" {
			x = "(" + x + ")"
		}
		return op + x
	case 7:
		g.k("expr:star")
		return "*" + g.primary(d-1)
	case 8:
		g.k("expr:paren")
		return "(" + g.expr(d-1) + ")"
	case 9, 10:
		return g.call(d)
	case 11:
		g.k("expr:index")
		return g.primary(d-1) + "[" + g.expr(d-1) + "]"
	case 12:
		g.k("expr:slice")
		x := g.primary(d - 1)
		switch g.n(6) {
		case 0:
			return x + "[:]"
		case 1:
			return x + "[" + g.expr(d-1) + ":]"
		case 2:
			return x + "[:" + g.expr(d-1) + "]"
		case 3:
			return x + "[" + g.expr(d-1) + ":" + g.expr(d-1) + "]"
		case 4:
			g.k("expr:slice3")
			return x + "[" + g.expr(d-1) + ":" + g.expr(d-1) + ":" + g.expr(d-1) + "]"
		default:
			g.k("expr:slice3")
			return x + "[:" + g.expr(d-1) + ":" + g.expr(d-1) + "]"
		}
	case 13, 14:
		g.k("expr:selector")
		if g.flip() {
			return g.pick(pkgNames...) + "." + g.pick(selNames...)
		}
		return g.primary(d-1) + "." + g.pick(selNames...)
	case 15:
		g.k("expr:typeassert")
		return g.primary(d-1) + ".(" + g.typ(1) + ")"
	case 16:
		return g.funcLit(d - 1)
	case 17, 18, 19:
		return g.composite(d)
	case 20:
		g.k("expr:conversion")
		ty := g.typ(1)
		if !isPrimary(ty) || strings.HasPrefix(ty, "func") || strings.HasPrefix(ty, "chan") {
			ty = "(" + ty + ")"
		}
		return ty + "(" + g.expr(d-1) + ")"
	case 21:
		g.k("expr:generic-call")
		return g.pick("f", "pkg.F") + "[" + g.tname() + g.pick("", ", "+g.tname()) + "](" + g.exprs(0, 2, d-1) + ")"
	default:
		return g.leaf()
	}
}

func (g *Syn) composite(d int) string {
	if g.inHdr > 0 {
		save := g.inHdr
		g.inHdr = 0
		defer func() { g.inHdr = save }()
		return "(" + g.composite0(d) + ")"
	}
	return g.composite0(d)
}

func (g *Syn) composite0(d int) string {
	g.k("expr:composite")
	multi := g.n(3) == 0 // one element per line
	sep, open, clos := ", ", "{", "}"
	if multi {
		g.k("expr:composite-multiline")
		sep, open, clos = ",\n", "{\n", ",\n}"
	}
	elems := func(f func() string) string {
		n := g.rng(0, 3)
		if n == 0 {
			return "{}"
		}
		var xs []string
		for i := 0; i < n; i++ {
			xs = append(xs, f())
		}
		return open + strings.Join(xs, sep) + clos
	}
	switch g.n(9) {
	case 0:
		return g.pick("T", "pkg.T", "G[int]") + elems(func() string { return g.expr(d - 1) })
	case 1:
		g.k("expr:composite-keyed")
		return g.pick("T", "pkg.T", "&T") + elems(func() string { return g.pick("A", "B", "Name") + ": " + g.expr(d-1) })
	case 2:
		return "[]" + g.tname() + elems(func() string { return g.expr(d - 1) })
	case 3:
		g.k("expr:composite-map")
		return "map[string]" + g.tname() + elems(func() string { return g.pick(`"k"`, `"j"`, "k") + ": " + g.expr(d-1) })
	case 4:
		g.k("expr:composite-ellipsis-array")
		return "[...]" + g.tname() + elems(func() string { return g.pick("", "2: ") + g.expr(d-1) })
	case 5:
		g.k("expr:composite-elided")
		return "[]T" + elems(func() string { return "{" + g.exprs(0, 2, d-1) + "}" })
	case 6:
		g.k("expr:composite-elided")
		return "map[T][]T" + elems(func() string { return "{" + g.expr(d-1) + "}: {{" + g.expr(d-1) + "}}" })
	case 7:
		g.k("expr:composite-struct")
		return "struct{ a int }" + elems(func() string { return g.expr(d - 1) })
	default:
		return "&" + g.pick("T", "pkg.T") + elems(func() string { return g.expr(d - 1) })
	}
}
