package gen

import (
	"pgregory.net/rapid"
)

var hostile = []string{
	"/*", "*/", "`", "\"", "'", "case", "func", "package", "import", "{", "}", "(", ")", "[", "]",
	"\x00", "\xff", "\xef\xbb\xbf", "//", "\n", "\r\n", ";", "...", "<-", ":=", "type", "struct", "interface",
	"//line x.go:1\n", "/*line :0*/", "package p\n", "import \"C\"\n", "0x", "1e", "'\\", "\\", "go", "else", "select", "~", "[T any]", "\t", " ",
	" ", "\xe2\x80", "label:", "/vendor", "vendor/", "\"a/vendor\"", "goto", "fallthrough", "chan<-", "var _ = ", "=", ",", ".", "//go:build x\n",
}

// Mutate is G-BYTES: structured mutation of a (usually valid) source into (usually) malformed
// input. It returns the mutated bytes and the names of the operations applied.
func Mutate(t *rapid.T, src []byte) ([]byte, []string) {
	n := rapid.IntRange(1, 5).Draw(t, "nmut")
	cur := append([]byte(nil), src...)
	var ops []string
	pos := func(lim int) int {
		if lim <= 0 {
			return 0
		}
		return rapid.IntRange(0, lim).Draw(t, "pos")
	}
	for i := 0; i < n; i++ {
		switch rapid.IntRange(0, 8).Draw(t, "mut") {
		case 0:
			cur = cur[:pos(len(cur))]
			ops = append(ops, "truncate")
		case 1:
			a := pos(len(cur))
			b := a + pos(min(len(cur)-a, 40))
			cur = append(cur[:a:a], cur[b:]...)
			ops = append(ops, "delete-span")
		case 2:
			a := pos(len(cur))
			b := a + pos(min(len(cur)-a, 40))
			seg := append([]byte(nil), cur[a:b]...)
			cur = append(cur[:b:b], append(seg, cur[b:]...)...)
			ops = append(ops, "duplicate-span")
		case 3, 4:
			a := pos(len(cur))
			h := hostile[rapid.IntRange(0, len(hostile)-1).Draw(t, "hostile")]
			cur = append(cur[:a:a], append([]byte(h), cur[a:]...)...)
			ops = append(ops, "insert-hostile")
		case 5:
			if len(cur) > 0 {
				a := pos(len(cur) - 1)
				cur[a] = rapid.Byte().Draw(t, "byte")
			}
			ops = append(ops, "set-byte")
		case 6:
			cur = cur[pos(len(cur)):]
			ops = append(ops, "drop-prefix")
		case 7:
			// remove one bracket / quote
			var idx []int
			for j, c := range cur {
				switch c {
				case '{', '}', '(', ')', '[', ']', '"', '`', '\'':
					idx = append(idx, j)
				}
			}
			if len(idx) > 0 {
				a := idx[rapid.IntRange(0, len(idx)-1).Draw(t, "bracket")]
				cur = append(cur[:a:a], cur[a+1:]...)
			}
			ops = append(ops, "unbalance")
		default:
			a := pos(len(cur))
			b := pos(len(cur))
			if a > b {
				a, b = b, a
			}
			// swap two halves around a..b
			seg := append([]byte(nil), cur[a:b]...)
			rest := append([]byte(nil), cur[b:]...)
			cur = append(append(cur[:a:a], rest...), seg...)
			ops = append(ops, "rotate")
		}
	}
	return cur, ops
}
