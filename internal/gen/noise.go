package gen

import (
	"bytes"
	"go/scanner"
	"go/token"
	"strings"

	"pgregory.net/rapid"

	"verif/internal/oracle"
)

// Noise is G-NOISE: token-preserving formatting perturbations of a parseable file. The result
// has the same tokens and comments but is (usually) no longer gofmt-canonical. It never
// produces CRLF line endings or whitespace-only lines (the class of open finding KF-5); those
// are exercised by NoiseKF5.
func Noise(t *rapid.T, src []byte) ([]byte, []string) {
	n := rapid.IntRange(1, 4).Draw(t, "nnoise")
	var kinds []string
	cur := src
	for i := 0; i < n; i++ {
		k := rapid.IntRange(0, 7).Draw(t, "noise")
		var name string
		cur, name = noiseOne(t, cur, k)
		kinds = append(kinds, name)
	}
	return cur, kinds
}

func mapLines(src []byte, f func(i int, line string, inside bool) string) []byte {
	inside := oracle.InsideLines(src)
	lines := strings.Split(string(src), "\n")
	for i := range lines {
		lines[i] = f(i, lines[i], inside[i+1])
	}
	return []byte(strings.Join(lines, "\n"))
}

func noiseOne(t *rapid.T, src []byte, k int) ([]byte, string) {
	switch k {
	case 0:
		return mapLines(src, func(i int, l string, in bool) string {
			if in {
				return l
			}
			t := strings.TrimLeft(l, "\t")
			return strings.Repeat("    ", len(l)-len(t)) + t
		}), "tabs-to-spaces"
	case 1:
		return mapLines(src, func(i int, l string, in bool) string {
			if in {
				return l
			}
			return strings.TrimLeft(l, " \t")
		}), "strip-indent"
	case 2:
		w := rapid.IntRange(1, 9).Draw(t, "indent")
		return mapLines(src, func(i int, l string, in bool) string {
			if in || strings.TrimSpace(l) == "" {
				return l
			}
			return strings.Repeat(" ", (i*7+w)%w+1) + strings.TrimLeft(l, " \t")
		}), "ragged-indent"
	case 3:
		return mapLines(src, func(i int, l string, in bool) string {
			if strings.TrimSpace(l) == "" {
				return l
			}
			// a line that ends inside a raw string / block comment must not get trailing blanks
			return l
		}), "noop"
	case 4:
		// extra blank lines between lines
		m := rapid.IntRange(2, 5).Draw(t, "every")
		cnt := rapid.IntRange(1, 3).Draw(t, "blanks")
		inside := oracle.InsideLines(src)
		lines := strings.Split(string(src), "\n")
		var out []string
		for i, l := range lines {
			out = append(out, l)
			if i%m == 0 && !inside[i+2] && i < len(lines)-1 {
				for j := 0; j < cnt; j++ {
					out = append(out, "")
				}
			}
		}
		return []byte(strings.Join(out, "\n")), "extra-blank-lines"
	case 5:
		return append([]byte("\xef\xbb\xbf"), src...), "bom"
	case 6:
		return spaceTokens(t, src), "token-spacing"
	default:
		// trailing blanks after code lines (not on blank lines, not inside multi-line tokens)
		inside := oracle.InsideLines(src)
		lines := strings.Split(string(src), "\n")
		for i, l := range lines {
			if strings.TrimSpace(l) != "" && !inside[i+1] && !inside[i+2] && i%3 == 0 {
				lines[i] = l + " \t"
			}
		}
		return []byte(strings.Join(lines, "\n")), "trailing-blanks"
	}
}

// spaceTokens inserts blanks before some tokens (never inside a token).
func spaceTokens(t *rapid.T, src []byte) []byte {
	if bytes.HasPrefix(src, []byte("\xef\xbb\xbf")) {
		return src
	}
	fset := token.NewFileSet()
	file := fset.AddFile("", -1, len(src))
	var s scanner.Scanner
	s.Init(file, src, func(token.Position, string) {}, scanner.ScanComments)
	m := rapid.IntRange(2, 6).Draw(t, "everytok")
	ins := map[int]bool{}
	i := 0
	for {
		pos, tok, lit := s.Scan()
		if tok == token.EOF {
			break
		}
		if tok == token.SEMICOLON && lit == "\n" {
			continue
		}
		i++
		if i%m == 0 && tok != token.COMMENT {
			ins[file.Offset(pos)] = true
		}
	}
	var out bytes.Buffer
	for j, b := range src {
		if ins[j] {
			out.WriteString("  ")
		}
		out.WriteByte(b)
	}
	return out.Bytes()
}

// NoiseKF5 produces inputs of the KF-5 class: CRLF line endings or whitespace-only "blank" lines.
func NoiseKF5(t *rapid.T, src []byte) ([]byte, string) {
	if rapid.Bool().Draw(t, "crlf") {
		inside := oracle.InsideLines(src)
		lines := strings.Split(string(src), "\n")
		for i := range lines {
			if !inside[i+2] && i < len(lines)-1 {
				lines[i] += "\r"
			}
		}
		return []byte(strings.Join(lines, "\n")), "crlf"
	}
	return mapLines(src, func(i int, l string, in bool) string {
		if l == "" && !in {
			return " \t"
		}
		return l
	}), "whitespace-only-lines"
}

// InKF5Class is the input-only predicate of open finding KF-5.
func InKF5Class(src []byte) bool {
	if bytes.Contains(src, []byte("\r")) {
		return true
	}
	for _, l := range strings.Split(string(src), "\n") {
		if l != "" && strings.TrimSpace(l) == "" {
			return true
		}
	}
	return false
}
