package gen

import (
	"io/fs"
	"os"
	"path/filepath"
	"runtime"
	"sort"
	"strings"
	"sync"

	"pgregory.net/rapid"
)

// G-CORPUS: fixed seed files — every .go file of dave/dst itself (always present: the checks
// build against it) and $(GOROOT)/src (optional: if absent the corpus is just smaller, which is
// reported through CorpusInfo). Seeds only add coverage; no property is decided by them alone.

var (
	corpusOnce  sync.Once
	corpusSmall []string // files <= 6 kB
	corpusAll   []string // files <= 64 kB
	corpusRoots []string
	cacheMu     sync.Mutex
	cache       = map[string][]byte{}
)

// RepoDir is the dave/dst tree the checks run against.
func RepoDir() string {
	if d := os.Getenv("VERIF_REPO"); d != "" {
		return d
	}
	return "/repo"
}

func loadCorpus() {
	roots := []string{RepoDir()}
	if gr, err := filepath.EvalSymlinks(filepath.Join(runtime.GOROOT(), "src")); err == nil && dirExists(gr) {
		roots = append(roots, gr)
	}
	corpusRoots = roots
	for _, root := range roots {
		filepath.WalkDir(root, func(p string, d fs.DirEntry, err error) error {
			if err != nil {
				return nil
			}
			if d.IsDir() {
				if n := d.Name(); n == ".git" || n == "vendor" && root != RepoDir() {
					return filepath.SkipDir
				}
				return nil
			}
			if !strings.HasSuffix(p, ".go") {
				return nil
			}
			info, err := d.Info()
			if err != nil {
				return nil
			}
			if info.Size() <= 64<<10 {
				corpusAll = append(corpusAll, p)
			}
			if info.Size() <= 6<<10 && info.Size() > 40 {
				corpusSmall = append(corpusSmall, p)
			}
			return nil
		})
	}
	sort.Strings(corpusAll)
	sort.Strings(corpusSmall)
}

func dirExists(p string) bool {
	st, err := os.Stat(p)
	return err == nil && st.IsDir()
}

// CorpusAll returns the sorted list of corpus files up to 64 kB.
func CorpusAll() []string {
	corpusOnce.Do(loadCorpus)
	return corpusAll
}

// CorpusSmall returns the sorted list of corpus files up to 6 kB.
func CorpusSmall() []string {
	corpusOnce.Do(loadCorpus)
	return corpusSmall
}

// CorpusRoots returns the directories the corpus was read from.
func CorpusRoots() []string {
	corpusOnce.Do(loadCorpus)
	return corpusRoots
}

// ReadCorpus reads (and caches) a corpus file.
func ReadCorpus(p string) []byte {
	cacheMu.Lock()
	defer cacheMu.Unlock()
	if b, ok := cache[p]; ok {
		return b
	}
	b, _ := os.ReadFile(p)
	if len(cache) < 4000 {
		cache[p] = b
	}
	return b
}

// CorpusFile draws a small corpus file.
func CorpusFile(t *rapid.T) (string, []byte) {
	fs := CorpusSmall()
	if len(fs) == 0 {
		return "", nil
	}
	// rapid biases integers toward small values and range ends; spread the draw with a
	// multiplicative hash so that all corpus files are sampled about equally often.
	x := rapid.Uint32().Draw(t, "corpus")
	p := fs[int((uint64(x)*2654435761+uint64(x>>16))%uint64(len(fs)))]
	return p, ReadCorpus(p)
}
