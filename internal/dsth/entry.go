// Package dsth holds helpers that drive dave/dst (entry points, tree dumps); the judging is done
// with package oracle.
package dsth

import (
	"bytes"
	"fmt"
	"go/ast"
	"go/format"
	"go/parser"
	"go/token"
	"io"
	"os"
	"strings"
	"sync"

	"github.com/dave/dst"
	"github.com/dave/dst/decorator"
)

// NumEntries is the number of decorate+print entry points RoundTrip knows.
const NumEntries = 10

// EntryName names an entry point.
func EntryName(e int) string {
	return [...]string{
		"Parse(string)+Fprint", "Parse([]byte)+Fprint", "Parse(io.Reader)+Fprint",
		"parser.ParseFile(shared fset)+NewDecorator.DecorateFile+NewRestorer.RestoreFile+format.Node",
		"decorator.ParseFile(fset,name,src,mode)+Fprint",
		"decorator.DecorateFile+decorator.RestoreFile helpers+format.Node",
		"shared Restorer (second file)+Restorer.Fprint",
		"FileRestorer{Name}+Fprint",
		"Decorator.Parse+Restorer with caller Fset",
		"Parse+Print helpers writing to os.Stdout (decorator.Print / Restorer.Print / FileRestorer.Print)",
	}[e]
}

var modes = []parser.Mode{0, parser.ParseComments, parser.AllErrors, parser.DeclarationErrors, parser.SkipObjectResolution, parser.ParseComments | parser.AllErrors | parser.SkipObjectResolution}

// NumModes is the number of parser modes used by entry 4.
const NumModes = 6

const filler = "package filler\n\n// some other file in the same FileSet\nfunc filler() {\n\t_ = `x\ny`\n}\n"

// RoundTrip decorates src and prints it unmodified through entry point e. pre is the number of
// unrelated files added to the FileSet beforehand (non-trivial Base), mode indexes the parser
// mode for entry 4.
func RoundTrip(src []byte, e, pre, mode int) ([]byte, error) {
	fset := token.NewFileSet()
	for i := 0; i < pre; i++ {
		if _, err := parser.ParseFile(fset, fmt.Sprintf("filler%d.go", i), filler, parser.ParseComments); err != nil {
			return nil, err
		}
	}
	var buf bytes.Buffer
	switch e {
	case 0, 1, 2:
		var in interface{}
		switch e {
		case 0:
			in = string(src)
		case 1:
			in = src
		case 2:
			in = strings.NewReader(string(src))
		}
		f, err := decorator.Parse(in)
		if err != nil {
			return nil, err
		}
		if err := decorator.Fprint(&buf, f); err != nil {
			return nil, err
		}
	case 3:
		af, err := parser.ParseFile(fset, "x.go", src, parser.ParseComments)
		if err != nil {
			return nil, err
		}
		f, err := decorator.NewDecorator(fset).DecorateFile(af)
		if err != nil {
			return nil, err
		}
		r := decorator.NewRestorer()
		out, err := r.RestoreFile(f)
		if err != nil {
			return nil, err
		}
		if err := format.Node(&buf, r.Fset, out); err != nil {
			return nil, err
		}
	case 4:
		m := modes[mode%len(modes)]
		f, err := decorator.ParseFile(fset, "x.go", src, m)
		if err != nil {
			// With DeclarationErrors go/parser itself reports redeclarations etc. for
			// syntactically valid files; the tree is still complete and must round-trip. If the
			// mode makes go/parser give up in the package clause ("invalid package name _") there
			// is no tree: the file is parsed without that mode instead.
			if _, perr := parser.ParseFile(token.NewFileSet(), "x.go", src, m|parser.ParseComments); perr == nil {
				return nil, err
			}
			if f == nil {
				f, err = decorator.ParseFile(token.NewFileSet(), "x.go", src, parser.ParseComments)
				if err != nil {
					return nil, err
				}
			}
		}
		if err := decorator.Fprint(&buf, f); err != nil {
			return nil, err
		}
	case 5:
		af, err := parser.ParseFile(fset, "x.go", src, parser.ParseComments)
		if err != nil {
			return nil, err
		}
		var f *dst.File
		if mode%2 == 0 {
			f, err = decorator.DecorateFile(fset, af)
		} else {
			var n dst.Node
			n, err = decorator.Decorate(fset, af)
			if err == nil {
				f = n.(*dst.File)
			}
		}
		if err != nil {
			return nil, err
		}
		rfset, out, err := decorator.RestoreFile(f)
		if err != nil {
			return nil, err
		}
		if err := format.Node(&buf, rfset, out); err != nil {
			return nil, err
		}
	case 6:
		r := decorator.NewRestorer()
		for i := 0; i <= pre; i++ {
			ff, err := decorator.Parse(filler)
			if err != nil {
				return nil, err
			}
			var sink bytes.Buffer
			if err := r.Fprint(&sink, ff); err != nil {
				return nil, err
			}
		}
		f, err := decorator.NewDecorator(fset).Parse(src)
		if err != nil {
			return nil, err
		}
		if err := r.Fprint(&buf, f); err != nil {
			return nil, err
		}
	case 7:
		f, err := decorator.NewDecorator(fset).ParseFile("orig.go", src, parser.ParseComments)
		if err != nil {
			return nil, err
		}
		fr := decorator.NewRestorer().FileRestorer()
		for i := 0; i < pre; i++ {
			// the same FileRestorer value has restored other files (with comments) before
			ff, err := decorator.Parse(filler)
			if err != nil {
				return nil, err
			}
			var sink bytes.Buffer
			fr.Name = fmt.Sprintf("earlier%d.go", i)
			if err := fr.Fprint(&sink, ff); err != nil {
				return nil, err
			}
		}
		fr.Name = "restored.go"
		if err := fr.Fprint(&buf, f); err != nil {
			return nil, err
		}
		// (format.Node may add a second, unnamed file to the set when it re-parses to sort imports)
		named := false
		fr.Fset.Iterate(func(tf *token.File) bool {
			named = named || tf.Name() == "restored.go"
			return true
		})
		if !named {
			return nil, fmt.Errorf("FileRestorer.Name not used for the registered file")
		}
	case 8:
		f, err := decorator.NewDecorator(nil).Parse(src)
		if err != nil {
			return nil, err
		}
		r := decorator.NewRestorer()
		r.Fset = fset // caller-supplied, pre-populated file set
		out, err := r.RestoreFile(f)
		if err != nil {
			return nil, err
		}
		if err := format.Node(&buf, fset, out); err != nil {
			return nil, err
		}
	case 9:
		f, err := decorator.Parse(src)
		if err != nil {
			return nil, err
		}
		out, err := captureStdout(func() error {
			switch mode % 3 {
			case 0:
				return decorator.Print(f)
			case 1:
				return decorator.NewRestorer().Print(f)
			}
			return decorator.NewRestorer().FileRestorer().Print(f)
		})
		if err != nil {
			return nil, err
		}
		buf.Write(out)
	default:
		return nil, fmt.Errorf("unknown entry %d", e)
	}
	return buf.Bytes(), nil
}

// Print is the plain Parse+Fprint round trip.
func Print(f *dst.File) ([]byte, error) {
	var buf bytes.Buffer
	err := decorator.Fprint(&buf, f)
	return buf.Bytes(), err
}

// PrintThenReuse restores f with a FileRestorer of r, lets the same FileRestorer restore another
// file (with comments and a multi-line literal), and only then prints the first result: what
// RestoreFile returned must not depend on what the FileRestorer does afterwards.
func PrintThenReuse(r *decorator.Restorer, f *dst.File) ([]byte, error) {
	fr := r.FileRestorer()
	af, err := fr.RestoreFile(f)
	if err != nil {
		return nil, err
	}
	ff, err := decorator.Parse(filler)
	if err != nil {
		return nil, err
	}
	fr.Name = "later.go"
	if _, err := fr.RestoreFile(ff); err != nil {
		return nil, err
	}
	var buf bytes.Buffer
	err = format.Node(&buf, fr.Fset, af)
	return buf.Bytes(), err
}

// NodeKinds counts the distinct go/ast node types of a file and reports whether a comment or a
// blank line lies strictly inside a declaration.
func NodeKinds(fset *token.FileSet, f *ast.File, src []byte) (kinds int, innerDecoration bool) {
	seen := map[string]bool{}
	ast.Inspect(f, func(n ast.Node) bool {
		if n != nil {
			seen[fmt.Sprintf("%T", n)] = true
		}
		return true
	})
	tf := fset.File(f.Pos())
	for _, d := range f.Decls {
		s, e := tf.Offset(d.Pos()), tf.Offset(d.End())
		if e > len(src) {
			e = len(src)
		}
		if bytes.Contains(src[s:e], []byte("\n\n")) || bytes.Contains(src[s:e], []byte("//")) || bytes.Contains(src[s:e], []byte("/*")) {
			innerDecoration = true
		}
	}
	return len(seen), innerDecoration
}

var stdoutMu sync.Mutex

// captureStdout runs f with os.Stdout redirected into a pipe and returns what f wrote there.
func captureStdout(f func() error) ([]byte, error) {
	stdoutMu.Lock()
	defer stdoutMu.Unlock()
	r, w, err := os.Pipe()
	if err != nil {
		return nil, err
	}
	old := os.Stdout
	os.Stdout = w
	done := make(chan []byte, 1)
	go func() {
		b, _ := io.ReadAll(r)
		done <- b
	}()
	var ferr error
	func() {
		defer func() {
			os.Stdout = old
			w.Close()
		}()
		ferr = f()
	}()
	out := <-done
	r.Close()
	return out, ferr
}
