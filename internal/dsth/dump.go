package dsth

import (
	"fmt"
	"reflect"
	"sort"
	"strings"

	"github.com/dave/dst"
)

// DumpOpts controls Dump.
type DumpOpts struct {
	Objects bool // include Obj / Scope links (as identity numbers and summaries); otherwise they are erased
}

// Dump renders a dst tree deterministically: every field of every node incl. decorations, Path,
// spacing; node pointers are numbered in visit order so that aliasing inside the tree shows up.
func Dump(n interface{}, o DumpOpts) string {
	d := &dumper{o: o, ids: map[uintptr]int{}}
	d.val(reflect.ValueOf(n), 0)
	return d.sb.String()
}

type dumper struct {
	o   DumpOpts
	sb  strings.Builder
	ids map[uintptr]int
}

var (
	objT   = reflect.TypeOf((*dst.Object)(nil))
	scopeT = reflect.TypeOf((*dst.Scope)(nil))
)

func (d *dumper) val(v reflect.Value, depth int) {
	ind := strings.Repeat(" ", depth)
	if !v.IsValid() {
		d.sb.WriteString("<invalid>\n")
		return
	}
	switch v.Kind() {
	case reflect.Interface:
		if v.IsNil() {
			d.sb.WriteString("nil\n")
			return
		}
		d.val(v.Elem(), depth)
	case reflect.Ptr:
		if (v.Type() == objT || v.Type() == scopeT) && !d.o.Objects {
			d.sb.WriteString("(erased)\n")
			return
		}
		if v.IsNil() {
			d.sb.WriteString("nil\n")
			return
		}
		if v.Type() == objT || v.Type() == scopeT {
			id, seen := d.ids[v.Pointer()]
			if !seen {
				id = len(d.ids) + 1
				d.ids[v.Pointer()] = id
			}
			if v.Type() == objT {
				ob := v.Interface().(*dst.Object)
				fmt.Fprintf(&d.sb, "obj#%d{%v %s}\n", id, ob.Kind, ob.Name)
			} else {
				fmt.Fprintf(&d.sb, "scope#%d\n", id)
			}
			return
		}
		id, seen := d.ids[v.Pointer()]
		if seen {
			fmt.Fprintf(&d.sb, "->#%d (shared)\n", id)
			return
		}
		id = len(d.ids) + 1
		d.ids[v.Pointer()] = id
		fmt.Fprintf(&d.sb, "#%d %s ", id, v.Elem().Type().Name())
		d.val(v.Elem(), depth)
	case reflect.Struct:
		d.sb.WriteString("{\n")
		for i := 0; i < v.NumField(); i++ {
			f := v.Type().Field(i)
			if tn := v.Type().Name(); (tn == "File" || tn == "Package") && (f.Name == "Imports" || f.Name == "Unresolved") {
				continue // derived lists that alias nodes of the tree; not consulted by printing
			}
			fmt.Fprintf(&d.sb, "%s %s: ", ind, f.Name)
			d.val(v.Field(i), depth+1)
		}
		d.sb.WriteString(ind + "}\n")
	case reflect.Slice:
		if v.Len() == 0 {
			d.sb.WriteString("[0]\n") // nil and empty slices are the same list
			return
		}
		fmt.Fprintf(&d.sb, "[%d]\n", v.Len())
		for i := 0; i < v.Len(); i++ {
			fmt.Fprintf(&d.sb, "%s %d: ", ind, i)
			d.val(v.Index(i), depth+1)
		}
	case reflect.Map:
		keys := v.MapKeys()
		sort.Slice(keys, func(i, j int) bool { return fmt.Sprint(keys[i]) < fmt.Sprint(keys[j]) })
		fmt.Fprintf(&d.sb, "map[%d]\n", len(keys))
		for _, k := range keys {
			fmt.Fprintf(&d.sb, "%s %v: ", ind, k)
			d.val(v.MapIndex(k), depth+1)
		}
	case reflect.String:
		fmt.Fprintf(&d.sb, "%q\n", v.String())
	default:
		fmt.Fprintf(&d.sb, "%v\n", v.Interface())
	}
}

// Nodes returns every node of the tree in Inspect order.
func Nodes(root dst.Node) []dst.Node {
	var out []dst.Node
	dst.Inspect(root, func(n dst.Node) bool {
		if n != nil {
			out = append(out, n)
		}
		return true
	})
	return out
}

// TypeName returns the bare type name of a node ("CallExpr").
func TypeName(n interface{}) string {
	s := fmt.Sprintf("%T", n)
	if i := strings.LastIndex(s, "."); i >= 0 {
		s = s[i+1:]
	}
	return s
}
