// Package h is the small harness shared by all checks: evidence collection, violation / replay
// files, known-finding bookkeeping and panic attribution.
//
// Every check package is a Go test package. Its TestMain calls h.Main(m, "Cnn"), its rapid
// properties are built with h.Prop so that every failing case is serialised (the shrunk concrete
// case, not the random stream) to a replay file and can be re-run without rapid.
package h

import (
	"crypto/sha1"
	"encoding/binary"
	"encoding/hex"
	"encoding/json"
	"flag"
	"fmt"
	"hash/fnv"
	"os"
	"path/filepath"
	"runtime/debug"
	"sort"
	"strings"
	"sync"
	"testing"
	"time"

	"pgregory.net/rapid"
)

// TB is what oracles need from *rapid.T / *testing.T.
type TB interface {
	Fatalf(format string, args ...any)
	Logf(format string, args ...any)
}

type collector struct {
	mu         sync.Mutex
	property   string
	start      time.Time
	evals      map[string]int // per sub-property
	excluded   map[string]int
	labels     map[string]int
	knownHits  map[string]int
	nontrivial map[uint64]struct{}
	samples    map[string][]any
	violations []violation
	notes      []string
}

type violation struct {
	Sub    string `json:"sub"`
	Replay string `json:"replay"`
	Msg    string `json:"msg"`
}

var c = &collector{
	evals: map[string]int{}, excluded: map[string]int{}, labels: map[string]int{},
	knownHits: map[string]int{}, nontrivial: map[uint64]struct{}{}, samples: map[string][]any{},
}

// MaxSamples is the number of sample cases kept per sub-property.
const MaxSamples = 3

// Main runs the tests and flushes evidence. Call it from TestMain.
func Main(m *testing.M, property string) {
	c.property = property
	c.start = time.Now()
	flag.Parse()
	code := m.Run()
	Flush()
	os.Exit(code)
}

// Property returns the property id of the running check.
func Property() string { return c.property }

// Eval counts one evaluated case of a sub-property.
func Eval(sub string) {
	c.mu.Lock()
	c.evals[sub]++
	c.mu.Unlock()
}

// Exclude counts a generated case that was not evaluated, with the reason.
func Exclude(reason string) {
	c.mu.Lock()
	c.excluded[reason]++
	c.mu.Unlock()
}

// Label counts an occurrence of a class of cases (generator health / coverage).
func Label(name string) {
	c.mu.Lock()
	c.labels[name]++
	c.mu.Unlock()
}

// LabelN adds n to a label.
func LabelN(name string, n int) {
	c.mu.Lock()
	c.labels[name] += n
	c.mu.Unlock()
}

// KnownHit counts a case that fell into the class of an open known finding.
func KnownHit(key string) {
	c.mu.Lock()
	c.knownHits[key]++
	c.mu.Unlock()
}

// NonTrivial records a non-trivial case by a key that identifies it (distinct keys are counted).
func NonTrivial(sub string, key ...string) {
	hsh := fnv.New64a()
	hsh.Write([]byte(sub))
	for _, k := range key {
		hsh.Write([]byte{0})
		hsh.Write([]byte(k))
	}
	c.mu.Lock()
	c.nontrivial[hsh.Sum64()] = struct{}{}
	c.mu.Unlock()
}

// Sample keeps up to MaxSamples sample cases per sub-property.
func Sample(sub string, v any) {
	c.mu.Lock()
	if len(c.samples[sub]) < MaxSamples {
		c.samples[sub] = append(c.samples[sub], v)
	}
	c.mu.Unlock()
}

// Note records a free-text remark for the evidence file.
func Note(format string, args ...any) {
	c.mu.Lock()
	c.notes = append(c.notes, fmt.Sprintf(format, args...))
	c.mu.Unlock()
}

// KnownFinding prints the line the interface requires for a listed, still failing finding.
func KnownFinding(key, what string) {
	fmt.Printf("KNOWN-FINDING: property=%s %s [%s]\n", c.property, what, key)
	KnownHit(key + ":witness")
}

func replayDir() string {
	if d := os.Getenv("VERIF_REPLAY_DIR"); d != "" {
		return d
	}
	return filepath.Join(os.TempDir(), "verif-replays")
}

// replayFile is what is written for a failing case.
type replayFile struct {
	Property string          `json:"property"`
	Sub      string          `json:"sub"`
	Message  string          `json:"message"`
	Case     json.RawMessage `json:"case"`
}

// Fail records a violation for the case cs (serialised into the replay file) and fails the test.
func Fail(t TB, sub string, cs any, format string, args ...any) {
	msg := fmt.Sprintf(format, args...)
	raw, err := json.MarshalIndent(cs, "", " ")
	if err != nil {
		raw = []byte(fmt.Sprintf("%q", fmt.Sprintf("%+v", cs)))
	}
	rf := replayFile{Property: c.property, Sub: sub, Message: msg, Case: raw}
	data, _ := json.MarshalIndent(rf, "", " ")
	dir := replayDir()
	os.MkdirAll(dir, 0o755)
	// one file per (sub, process): later failures (shrinking) overwrite earlier ones, the last one
	// written is the minimal case rapid ends with.
	name := filepath.Join(dir, fmt.Sprintf("%s-%s-%d.json", c.property, sub, os.Getpid()))
	os.WriteFile(name, data, 0o644)
	c.mu.Lock()
	found := false
	for i := range c.violations {
		if c.violations[i].Sub == sub {
			c.violations[i].Msg = msg
			found = true
		}
	}
	if !found {
		c.violations = append(c.violations, violation{Sub: sub, Replay: name, Msg: msg})
	}
	c.mu.Unlock()
	t.Fatalf("VERIF-VIOLATION property=%s sub=%s replay=%s\n%s", c.property, sub, name, msg)
}

// Guard runs f and attributes a panic: a panic raised inside dave/dst code is a violation of the
// running sub-property (dst must not panic on the inputs the checks feed it, unless the check
// expects it and recovers itself); test-framework panics (rapid's control flow) and panics of the
// harness itself are passed on unchanged.
func Guard(t TB, sub string, cs any, f func()) {
	defer func() {
		r := recover()
		if r == nil {
			return
		}
		typ := fmt.Sprintf("%T", r)
		if strings.HasPrefix(typ, "rapid.") {
			panic(r)
		}
		stack := string(debug.Stack())
		if site := DstSite(stack); site != "" {
			Fail(t, sub, cs, "panic inside dave/dst at %s: %v", site, r)
		}
		panic(r)
	}()
	f()
}

// DstSite returns the innermost dave/dst frame ("func file:line") of a stack trace at or below
// the panic, or "" when the panic did not originate in dst code.
func DstSite(stack string) string {
	lines := strings.Split(stack, "\n")
	// skip frames up to and including the runtime panic frames
	start := 0
	for i, l := range lines {
		if strings.HasPrefix(l, "panic(") {
			start = i
		}
	}
	for i := start; i < len(lines)-1; i++ {
		l := lines[i]
		if strings.HasPrefix(l, "github.com/dave/dst") {
			loc := strings.TrimSpace(lines[i+1])
			if j := strings.Index(loc, " +0x"); j >= 0 {
				loc = loc[:j]
			}
			fn := l
			if j := strings.LastIndex(fn, "("); j >= 0 {
				fn = fn[:j]
			}
			return fn + " " + loc
		}
		if strings.HasPrefix(l, "verif/") || strings.HasPrefix(l, "pgregory.net/rapid") {
			// the innermost non-runtime frame is harness code: not a dst panic
			return ""
		}
	}
	return ""
}

// replayers maps sub-property names to functions that re-run a serialised case.
var replayers = map[string]func(t TB, raw json.RawMessage){}

// Prop builds a rapid property from a case generator and an oracle, and registers the oracle
// for replay. gen returns ok=false for a case that must be discarded (it should already have
// called Exclude with the reason).
func Prop[C any](sub string, gen func(t *rapid.T) (C, bool), check func(t TB, cs C)) func(t *rapid.T) {
	replayers[sub] = func(t TB, raw json.RawMessage) {
		var cs C
		if err := json.Unmarshal(raw, &cs); err != nil {
			t.Fatalf("replay: cannot decode case for %s: %v", sub, err)
		}
		check(t, cs)
	}
	return func(t *rapid.T) {
		cs, ok := gen(t)
		if !ok {
			return
		}
		Eval(sub)
		check(t, cs)
	}
}

// RegisterReplay registers an oracle for cases that are not produced through Prop.
func RegisterReplay[C any](sub string, check func(t TB, cs C)) {
	replayers[sub] = func(t TB, raw json.RawMessage) {
		var cs C
		if err := json.Unmarshal(raw, &cs); err != nil {
			t.Fatalf("replay: cannot decode case for %s: %v", sub, err)
		}
		check(t, cs)
	}
}

// ReplayFile re-runs the case stored in path against its oracle, bypassing rapid.
func ReplayFile(t TB, path string) {
	data, err := os.ReadFile(path)
	if err != nil {
		t.Fatalf("replay: %v", err)
	}
	var rf replayFile
	if err := json.Unmarshal(data, &rf); err != nil {
		t.Fatalf("replay: %v", err)
	}
	f, ok := replayers[rf.Sub]
	if !ok {
		t.Fatalf("replay: no oracle registered for sub-property %q (have %v)", rf.Sub, subs())
	}
	f(t, rf.Case)
}

// ReplayRaw re-runs a raw JSON case against the oracle of sub.
func ReplayRaw(t TB, sub string, raw json.RawMessage) {
	f, ok := replayers[sub]
	if !ok {
		t.Fatalf("replay: no oracle registered for sub-property %q", sub)
	}
	f(t, raw)
}

func subs() []string {
	var s []string
	for k := range replayers {
		s = append(s, k)
	}
	sort.Strings(s)
	return s
}

// TestReplayEnv is the body of every check's TestReplayFile: it replays $VERIF_REPLAY_FILE.
func TestReplayEnv(t *testing.T) {
	p := os.Getenv("VERIF_REPLAY_FILE")
	if p == "" {
		t.Skip("VERIF_REPLAY_FILE not set")
	}
	ReplayFile(t, p)
}

// Recorder is a TB that records a failure instead of stopping the test; used to probe witnesses
// of known findings ("does this still fail?").
type Recorder struct {
	Failed bool
	Msg    string
}

type recorderStop struct{}

func (r *Recorder) Fatalf(format string, args ...any) {
	r.Failed = true
	r.Msg = fmt.Sprintf(format, args...)
	panic(recorderStop{})
}
func (r *Recorder) Logf(format string, args ...any) {}

// Probe runs f with a Recorder and reports whether it failed. Violation files written by Fail
// during the probe are removed again and not counted.
func Probe(f func(t TB)) (failed bool, msg string) {
	r := &Recorder{}
	c.mu.Lock()
	nv := len(c.violations)
	c.mu.Unlock()
	func() {
		defer func() {
			if x := recover(); x != nil {
				if _, ok := x.(recorderStop); !ok {
					panic(x)
				}
			}
		}()
		f(r)
	}()
	c.mu.Lock()
	for _, v := range c.violations[nv:] {
		os.Remove(v.Replay)
	}
	c.violations = c.violations[:nv]
	c.mu.Unlock()
	return r.Failed, r.Msg
}

// ShardOut is the JSON written per process.
type ShardOut struct {
	Property   string           `json:"property"`
	Evals      map[string]int   `json:"evals"`
	Excluded   map[string]int   `json:"excluded"`
	Labels     map[string]int   `json:"labels"`
	KnownHits  map[string]int   `json:"known_finding_hits"`
	Samples    map[string][]any `json:"samples"`
	Violations []violation      `json:"violations"`
	Notes      []string         `json:"notes"`
	WallS      float64          `json:"wall_s"`
	NonTrivial int              `json:"nontrivial"`
	HashFile   string           `json:"hash_file"`
}

// Flush writes the shard's evidence to $VERIF_SHARD_OUT (JSON) and the set of non-trivial case
// hashes next to it (binary, 8 bytes each) so that the driver can count distinct cases across
// shards.
func Flush() {
	out := os.Getenv("VERIF_SHARD_OUT")
	if out == "" {
		return
	}
	c.mu.Lock()
	defer c.mu.Unlock()
	hf := out + ".hashes"
	buf := make([]byte, 0, 8*len(c.nontrivial))
	for k := range c.nontrivial {
		buf = binary.LittleEndian.AppendUint64(buf, k)
	}
	os.WriteFile(hf, buf, 0o644)
	so := ShardOut{
		Property: c.property, Evals: c.evals, Excluded: c.excluded, Labels: c.labels,
		KnownHits: c.knownHits, Samples: c.samples, Violations: c.violations, Notes: c.notes,
		WallS: time.Since(c.start).Seconds(), NonTrivial: len(c.nontrivial), HashFile: hf,
	}
	data, err := json.Marshal(so)
	if err != nil {
		// a sample that cannot be marshalled must not lose the counts
		so.Samples = nil
		data, _ = json.Marshal(so)
	}
	os.WriteFile(out, data, 0o644)
}

// Sha returns a short content hash, used for replay file names and distinctness keys.
func Sha(s string) string {
	h := sha1.Sum([]byte(s))
	return hex.EncodeToString(h[:8])
}

// Trunc shortens a string for samples.
func Trunc(s string, n int) string {
	if len(s) <= n {
		return s
	}
	return s[:n] + fmt.Sprintf("…(+%d bytes)", len(s)-n)
}
