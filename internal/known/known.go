// Package known reads /verif/known/known_findings.json (committed, never written at run time)
// and runs the witnesses of listed findings.
package known

import (
	"encoding/json"
	"fmt"
	"go/ast"
	"go/parser"
	"go/token"
	"os"
	"path/filepath"
	"regexp"
	"sort"
	"strings"
	"testing"

	"verif/internal/h"
	"verif/internal/oracle"
)

// Witness is one concrete failing input / history of a finding.
type Witness struct {
	Name  string          `json:"name"`
	Sub   string          `json:"sub,omitempty"`
	Input string          `json:"input,omitempty"`
	Case  json.RawMessage `json:"case,omitempty"`
	Open  bool            `json:"-"` // set by RunWitnesses: the witness belongs to an open finding (judge it strictly)
}

// Finding is one entry of known_findings.json.
type Finding struct {
	Property   string    `json:"property"`
	Key        string    `json:"key"`
	Status     string    `json:"status"` // open | fixed
	Commit     string    `json:"commit,omitempty"`
	WhatFails  string    `json:"what_fails"`
	Classifier string    `json:"classifier,omitempty"`
	Witnesses  []Witness `json:"witnesses"`
}

type file struct {
	Findings []Finding `json:"findings"`
	Fixed    []string  `json:"fixed_log"`
}

// Root returns the /verif directory.
func Root() string {
	if r := os.Getenv("VERIF_ROOT"); r != "" {
		return r
	}
	wd, _ := os.Getwd()
	for d := wd; d != "/"; d = filepath.Dir(d) {
		if _, err := os.Stat(filepath.Join(d, "known", "known_findings.json")); err == nil {
			return d
		}
	}
	return "/verif"
}

// Load returns the findings listed for a property.
func Load(property string) []Finding {
	data, err := os.ReadFile(filepath.Join(Root(), "known", "known_findings.json"))
	if err != nil {
		panic("cannot read known_findings.json: " + err.Error())
	}
	var f file
	if err := json.Unmarshal(data, &f); err != nil {
		panic("known_findings.json: " + err.Error())
	}
	var out []Finding
	for _, x := range f.Findings {
		if x.Property == property {
			out = append(out, x)
		}
	}
	return out
}

// Open reports whether the finding key is listed as open for the property.
func Open(property, key string) bool {
	for _, f := range Load(property) {
		if f.Key == key && f.Status == "open" {
			return true
		}
	}
	return false
}

// RunWitnesses runs every witness of every finding listed for the property through run.
// Open finding: a witness that still fails prints the KNOWN-FINDING line (once per finding) and
// is not a violation. Fixed finding: the witness is a plain regression input — if it fails
// again, that is a violation like any other.
func RunWitnesses(t *testing.T, property string, run func(t h.TB, w Witness)) {
	for _, f := range Load(property) {
		still := 0
		for _, w := range f.Witnesses {
			w := w
			w.Open = f.Status == "open"
			h.Eval("Witness")
			if f.Status == "open" {
				failed, _ := h.Probe(func(t h.TB) { run(t, w) })
				if failed {
					still++
				} else {
					h.Note("witness %s/%s of open finding no longer fails", f.Key, w.Name)
				}
			} else {
				run(t, w)
			}
		}
		if f.Status == "open" && still > 0 {
			h.KnownFinding(f.Key, f.WhatFails)
		}
	}
}

// RunRegressions replays every committed replay file under /verif/replays/<property>/.
func RunRegressions(t *testing.T, property string) {
	dir := filepath.Join(Root(), "replays", property)
	ents, err := os.ReadDir(dir)
	if err != nil {
		return
	}
	var names []string
	for _, e := range ents {
		if strings.HasSuffix(e.Name(), ".json") {
			names = append(names, e.Name())
		}
	}
	sort.Strings(names)
	for _, n := range names {
		h.Eval("Regression")
		h.ReplayFile(t, filepath.Join(dir, n))
	}
}

// WeakDiff is the judgement used for inputs in the KF-1 class (column-dependent layout): token
// stream, AST shape and comment texts (modulo whitespace inside and around them) must still be
// those of the input. "" means equal.
func WeakDiff(src, out []byte) string {
	ta, ca, ok := oracle.Scan(src)
	if !ok {
		return "input does not scan"
	}
	tb, cb, ok := oracle.Scan(out)
	if !ok {
		return "output does not scan"
	}
	if d := oracle.DiffToks(ta, tb); d != "" {
		return "tokens: " + d
	}
	if d := oracle.SameShapeSrc(src, out); d != "" {
		// KF-3 as recorded: a line-ending comment moved behind the name of a generic alias can make
		// the output unparseable; the token stream (compared above) is still the input's
		if !(genericAlias(src) && strings.Contains(d, "does not parse")) {
			return "shape: " + d
		}
	}
	if d := oracle.DiffStrings(squash(ca), squash(cb)); d != "" {
		if oracle.DiffStrings(dropEmpty(squash(ca)), dropEmpty(squash(cb))) == "" {
			return "" // go/printer's doc-comment formatter inserts and removes empty "//" lines when it re-flows a group
		}
		sa, sb := squash(ca), squash(cb)
		sort.Strings(sa)
		sort.Strings(sb)
		if genericAlias(src) && oracle.DiffStrings(sa, sb) == "" {
			return "" // KF-3: the misplaced decoration changes the comment order, nothing is lost
		}
		if hasDirective(ca) && oracle.DiffStrings(dropEmpty(sa), dropEmpty(sb)) == "" {
			return "" // go/printer's doc-comment formatter moves directive lines (//line, //go:...) to the end of a doc comment on its own
		}
		return "comments: " + d
	}
	return ""
}

func squash(xs []string) []string {
	out := make([]string, len(xs))
	for i, x := range xs {
		out[i] = strings.Join(strings.Fields(x), "")
	}
	return out
}

// Describe is used in messages.
func (f Finding) Describe() string { return fmt.Sprintf("%s (%s)", f.Key, f.WhatFails) }

// LayoutClass classifies a gofmt-canonical input for the byte-exact round-trip checks (C01, C08,
// C20). "" means strict byte equality is demanded. Otherwise the input lies in the class of the
// named open finding and is judged with WeakDiff. Both predicates look at the input only.
//
//	KF-2: a multi-line /* */ comment that starts in column 1 and is followed, on the line where it
//	      ends, directly by a token (`*/package p`). go/printer treats a column-1 comment whose
//	      End()+1 is the next token as a doc comment and re-flows it; in the parsed file the
//	      distance is 0, in dst's synthetic position space it is 1.
//	KF-3: the file declares a generic type alias (`type A[P any] = T`, accepted by go/parser since
//	      go1.23): dst orders a TypeSpec's parts Name, '=', TypeParams, Type, so decorations next
//	      to the '=' or the type parameter list are emitted at the wrong side of the list.
//	KF-4: commentsAroundComma(src), see there.
//	KF-1: !oracle.ColumnRobust(src).
func LayoutClass(src []byte) string {
	c := layoutClass(src)
	if c != "" && c == os.Getenv("VERIF_STRICT_CLASS") {
		return "" // experiment switch: judge one class strictly (used to evaluate candidate repairs)
	}
	return c
}

func layoutClass(src []byte) string {
	if abuttingBlockComment(src) {
		return "KF-2"
	}
	if genericAlias(src) {
		return "KF-3"
	}
	if !oracle.ColumnRobust(src) {
		return "KF-1"
	}
	if commentsAroundComma(src) {
		return "KF-4"
	}
	return ""
}

// commentsAroundComma is the input-only predicate of open finding KF-4: a comment directly in
// front of a ',' and, directly behind the same ',', a comment that contains a newline (a
// multi-line /* */ or a // comment). go/ast has no position for the comma, so `a /*c*/,/* m⏎ */b`
// and `a,/*c*/ /* m⏎ */b` decorate to the same tree; the restorer (like go/parser) makes the two
// adjacent comments one group, and go/printer prints a group that contains a newline behind the
// comma: only the second spelling round-trips.
var commaCommentsRE = regexp.MustCompile(`\*/[ \t]*,[ \t]*(//|/\*[^*\n]*(\*[^/\n][^*\n]*)*\n)`)

func commentsAroundComma(src []byte) bool { return commaCommentsRE.Match(src) }

// DuplicateImport is the input-only predicate of open finding KF-6: the file imports one path
// twice (e.g. "unsafe" and _ "unsafe"); an import-managed restore keeps only one of the specs.
func DuplicateImport(src []byte) bool {
	f, err := parser.ParseFile(token.NewFileSet(), "", src, parser.ImportsOnly)
	if err != nil {
		return false
	}
	seen := map[string]bool{}
	for _, is := range f.Imports {
		if seen[is.Path.Value] {
			return true
		}
		seen[is.Path.Value] = true
	}
	return false
}

func abuttingBlockComment(src []byte) bool {
	s := string(src)
	for i := 0; i < len(s); {
		j := strings.Index(s[i:], "*/")
		if j < 0 {
			return false
		}
		end := i + j + 2
		i = end
		if end >= len(s) || s[end] == '\n' || s[end] == ' ' || s[end] == '\t' || s[end] == '\r' {
			continue
		}
		// find the start of this comment: the nearest preceding "/*"
		st := strings.LastIndex(s[:end-2], "/*")
		if st < 0 {
			continue
		}
		if !strings.Contains(s[st:end], "\n") {
			continue
		}
		if st == 0 || s[st-1] == '\n' {
			return true
		}
	}
	return false
}

// GenericAlias is the input-only predicate of open finding KF-3.
func GenericAlias(src []byte) bool { return genericAlias(src) }

func genericAlias(src []byte) bool {
	if !strings.Contains(string(src), "] =") {
		return false
	}
	_, f, err := oracle.Parse(src)
	if err != nil {
		return false
	}
	found := false
	ast.Inspect(f, func(n ast.Node) bool {
		if ts, ok := n.(*ast.TypeSpec); ok && ts.TypeParams != nil && ts.Assign.IsValid() {
			found = true
		}
		return !found
	})
	return found
}

// InlineCommentGroup is the input-only predicate of open finding KF-4.
func InlineCommentGroup(src []byte) bool { return inlineGroupWithMultiLineComment(src) }

func inlineGroupWithMultiLineComment(src []byte) bool {
	fset, f, err := oracle.Parse(src)
	if err != nil {
		return false
	}
	tf := fset.File(f.Pos())
	for _, g := range f.Comments {
		if len(g.List) < 2 {
			continue
		}
		multi := false
		for _, c := range g.List {
			if strings.HasPrefix(c.Text, "//") || strings.Contains(c.Text, "\n") {
				multi = true // go/printer: the group "contains a newline"
			}
		}
		if !multi {
			continue
		}
		// does the group start behind a token on its line, or is it followed by one on the line
		// where it ends?
		off := tf.Offset(g.Pos())
		ls := tf.Offset(tf.LineStart(tf.PositionFor(g.Pos(), false).Line)) // physical line: ignore //line directives
		if strings.TrimSpace(string(src[ls:off])) != "" {
			return true
		}
		end := tf.Offset(g.End())
		le := end
		for le < len(src) && src[le] != '\n' {
			le++
		}
		if strings.TrimSpace(string(src[end:le])) != "" {
			return true
		}
	}
	return false
}

var directiveRE = regexp.MustCompile(`^//(line |[a-z0-9]+:[a-z0-9])`)

func hasDirective(comments []string) bool {
	for _, c := range comments {
		if directiveRE.MatchString(c) {
			return true
		}
	}
	return false
}

// dropEmpty removes empty "//" lines (the doc formatter inserts one in front of moved directives).
func dropEmpty(xs []string) []string {
	var out []string
	for _, x := range xs {
		if x != "//" {
			out = append(out, x)
		}
	}
	return out
}
