#!/bin/bash
# Run every seeded change against the check of its own property (and record in meta.json).
cd /verif
for d in seeded/*/; do
  name=$(basename $d)
  prop=$(python3 -c "import json;print(json.load(open('$d/meta.json'))['property'])")
  python3 tools/run_seeded.py $name $prop 2>&1 | grep -E "vs C[0-9]+ "
done
