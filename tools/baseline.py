#!/usr/bin/env python3
"""Run dave/dst's pinned baseline test suite (guard tag OFF) and compare with /root/.vp/BASELINE.json.

Exit 0 iff every test in BASELINE.stable_pass passes. Usage: baseline.py [repo_dir]
"""
import json, os, subprocess, sys

repo = sys.argv[1] if len(sys.argv) > 1 else "/repo"
base = json.load(open("/root/.vp/BASELINE.json"))
env = dict(os.environ, GOFLAGS="-mod=mod", GOPROXY="off", GOSUMDB="off", GOTOOLCHAIN="local")
p = subprocess.run(["go", "test", "-json", "-vet=off", "-count=1", "-timeout", "25m", "./..."],
                   cwd=repo, env=env, stdout=subprocess.PIPE, stderr=subprocess.STDOUT, text=True)
passed, failed = set(), set()
for line in p.stdout.splitlines():
    try:
        ev = json.loads(line)
    except Exception:
        continue
    if "Test" not in ev:
        continue
    # sub-tests with generated names are recorded with '*' in the baseline
    name = ev["Package"] + "::" + ev["Test"]
    if ev.get("Action") == "pass":
        passed.add(name)
    elif ev.get("Action") == "fail":
        failed.add(name)

def norm(n):
    import re
    return re.sub(r"TestRewrite/[^/]+", "TestRewrite/*", n) if "TestRewrite/" in n else n

passed_n = {norm(n) for n in passed}
failed_n = {norm(n) for n in failed}
want = set(base["stable_pass"])
missing = sorted(n for n in want if n not in passed_n or n in failed_n)
print(f"baseline: {len(want) - len(missing)}/{len(want)} stable tests pass")
for m in missing:
    print("MISSING/FAILED:", m)
# restore go.sum in case -mod=mod touched it
subprocess.run(["git", "-C", repo, "checkout", "--", "go.sum"], stdout=subprocess.DEVNULL, stderr=subprocess.DEVNULL)
sys.exit(1 if missing else 0)
