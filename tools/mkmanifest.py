#!/usr/bin/env python3
"""Regenerate /verif/MANIFEST.json from checks/*/verif.json (+ manifest fields kept there)."""
import json, os
ROOT = os.path.dirname(os.path.dirname(os.path.abspath(__file__)))
props = [json.loads(l) for l in open(os.path.join(ROOT, "properties.jsonl"))]
checks, na = [], []
for p in props:
    pid = p["id"]
    cfgp = os.path.join(ROOT, "checks", pid.lower(), "verif.json")
    if not os.path.exists(cfgp):
        na.append({"property_id": pid, "reason": "check not built yet (work in progress; see DESIGN.md section 5 for the planned oracle)"})
        continue
    cfg = json.load(open(cfgp))
    if cfg.get("not_applicable"):
        na.append({"property_id": pid, "reason": cfg["not_applicable"]})
        continue
    m = cfg.get("manifest", {})
    checks.append({
        "property_id": pid,
        "quick_cmd": f"python3 verif.py check {pid} --tier quick",
        "thorough_cmd": f"python3 verif.py check {pid} --tier thorough",
        "evidence_file": f"/verif/evidence/{pid}.json",
        "replay_cmd_template": f"python3 verif.py replay {pid} {{path}}",
        "engine": "rapid-pbt",
        "level_claimed": {
            "category": cfg.get("level", "exploration"),
            "text": m.get("text", ""),
            "design_ref": m.get("design_ref", f"DESIGN.md section 5, {pid}"),
        },
        "level_note": m.get("note", ""),
        "technique": m.get("technique", "property-based testing (pgregory.net/rapid) against an independent oracle"),
    })
man = {
    "version": 1,
    "setup_cmd": "python3 verif.py setup",
    "hooks": {
        "guard": "verif",
        "enable": "checks are built with `go test -c -tags verif`; no hook code exists in dave/dst (all observation points are public API), so the tag changes nothing",
        "baseline_off_cmd": "python3 tools/baseline.py /repo",
        "source_commits": [],
        "add_only": True,
    },
    "engines": [{
        "name": "rapid-pbt",
        "path": "/verif/verif.py",
        "serves_properties": [c["property_id"] for c in checks],
        "kind_free_text": "property-based testing with pgregory.net/rapid v1.3.0 (generators, state machines, shrinking), sharded over 16 processes by verif.py; native go test -fuzz campaigns in the thorough tier; race detector for C16",
    }],
    "checks": checks,
    "not_applicable": na,
    "notes": "Every check rebuilds its test binary from /repo's working tree (go.mod replace github.com/dave/dst => /repo). Exit 0 held / 1 VIOLATION / 2 inconclusive (infrastructure). Known findings: known/known_findings.json.",
}
json.dump(man, open(os.path.join(ROOT, "MANIFEST.json"), "w"), indent=1)
print(f"{len(checks)} checks, {len(na)} not applicable")
