#!/bin/bash
# Re-run every seeded change against the checks recorded as detecting it (quick tier), on the
# current /repo HEAD. Usage: tools/rerun_matrix.sh [name-glob]   Output: one verdict line per pair.
export GOFLAGS=-mod=mod GOPROXY=off GOSUMDB=off GOTOOLCHAIN=local
cd /verif
for d in seeded/${1:-*}/; do
  n=$(basename $d)
  ids=$(python3 -c "import json;m=json.load(open('seeded/$n/meta.json'));print(' '.join(m.get('detected_by') or [m['property']]))")
  python3 tools/run_seeded.py $n $ids 2>&1 | grep -E "^$n vs|error:|Traceback"
done
