#!/usr/bin/env python3
"""Run checks against a seeded change: run_seeded.py <name> <ID> [<ID>...] [--tier quick]

Applies /verif/seeded/<name>/patch.diff to a scratch worktree of /repo HEAD (never to /repo),
runs `verif.py check <ID>` with VERIF_REPO pointing at it, records the outcome in meta.json.
"""
import json, os, subprocess, sys, tempfile, shutil, time
name = sys.argv[1]
ids = [a for a in sys.argv[2:] if not a.startswith("--")]
tier = "quick"
if "--tier" in sys.argv:
    tier = sys.argv[sys.argv.index("--tier") + 1]; ids = [i for i in ids if i != tier]
d = os.path.join("/verif/seeded", name)
os.makedirs("/tmp/wt", exist_ok=True)
wt = tempfile.mkdtemp(prefix="seed-", dir="/tmp/wt"); os.rmdir(wt)
subprocess.run(["git", "-C", "/repo", "worktree", "add", "--detach", wt, "HEAD", "-q"], check=True)
try:
    subprocess.run(["git", "apply", os.path.join(d, "patch.diff")], cwd=wt, check=True)
    meta = json.load(open(os.path.join(d, "meta.json")))
    for pid in ids:
        t0 = time.time()
        env = dict(os.environ, VERIF_REPO=wt, VERIF_TIER=tier)
        p = subprocess.run(["python3", "/verif/verif.py", "check", pid, "--tier", tier], env=env, stdout=subprocess.PIPE, stderr=subprocess.STDOUT, text=True)
        viol = [l for l in p.stdout.splitlines() if l.startswith("VIOLATION") or l.startswith("  sub-property")]
        verdict = {0: "MISSED", 1: "DETECTED", 2: "INCONCLUSIVE"}.get(p.returncode, str(p.returncode))
        print(f"{name} vs {pid} [{tier}]: {verdict} in {time.time()-t0:.0f}s")
        for l in viol[:4]:
            print("   ", l[:300])
        if p.returncode == 2:
            print(p.stdout[-1500:])
        runs = meta.setdefault("runs", {})
        runs[f"{pid}:{tier}"] = {"verdict": verdict, "wall_s": round(time.time() - t0), "first_violation": (viol[1][:300] if len(viol) > 1 else "")}
        if verdict == "DETECTED" and pid not in meta.setdefault("detected_by", []):
            meta["detected_by"].append(pid)
    json.dump(meta, open(os.path.join(d, "meta.json"), "w"), indent=1)
finally:
    subprocess.run(["git", "-C", "/repo", "worktree", "remove", "--force", wt])
    shutil.rmtree(wt, ignore_errors=True)
    # replays found against a mutant are not findings on /repo
    for pid in ids:
        shutil.rmtree(os.path.join("/verif/replays", pid, "found"), ignore_errors=True)
