#!/usr/bin/env python3
"""Confirm a sub-agent's seeded change and store it under /verif/seeded/<name>/.

usage: confirm_seeded.py <out_dir> <name> <property>
<out_dir> holds patch.diff, demo/ (Go module with a replace line), notes.md.
Confirms on a fresh scratch worktree of /repo HEAD: patch applies, builds, baseline 109/109,
demo FAILS with the patch and PASSES without. Writes meta.json.
"""
import json, os, re, shutil, subprocess, sys, tempfile

out_dir, name, prop = sys.argv[1], sys.argv[2], sys.argv[3]
ENV = dict(os.environ, GOFLAGS="-mod=mod", GOPROXY="off", GOSUMDB="off", GOTOOLCHAIN="local")
os.makedirs("/tmp/wt", exist_ok=True)
wt = tempfile.mkdtemp(prefix="confirm-", dir="/tmp/wt")
os.rmdir(wt)
def run(cmd, cwd, check=False):
    p = subprocess.run(cmd, cwd=cwd, env=ENV, stdout=subprocess.PIPE, stderr=subprocess.STDOUT, text=True)
    return p.returncode, p.stdout
head = subprocess.check_output(["git", "-C", "/repo", "rev-parse", "--short", "HEAD"], text=True).strip()
run(["git", "-C", "/repo", "worktree", "add", "--detach", wt, "HEAD", "-q"], "/repo")
res = {"property": prop, "name": name, "repo_head": head}
try:
    patch = os.path.join(out_dir, "patch.diff")
    rc, o = run(["git", "apply", patch], wt)
    if rc != 0:
        rc, o = run(["git", "apply", "--3way", patch], wt)
        run(["git", "reset", "-q"], wt)
    res["applies"] = rc == 0
    if rc != 0:
        print("PATCH DOES NOT APPLY:\n" + o); sys.exit(1)
    # refresh the patch against current HEAD
    rc, newpatch = run(["git", "diff"], wt)
    rc, o = run(["go", "build", "./..."], wt); res["builds"] = rc == 0
    rc2, o2 = run(["go", "test", "-vet=off", "-count=1", "-run", "^$", "./..."], wt); res["test_binaries_build"] = rc2 == 0
    rc, o = run(["python3", "/verif/tools/baseline.py", wt], wt); res["baseline"] = o.strip().splitlines()[0] if o.strip() else ""
    res["baseline_ok"] = rc == 0
    run(["git", "checkout", "--", "go.sum"], wt)
    demo = tempfile.mkdtemp(prefix="demo-", dir="/tmp/wt")
    shutil.rmtree(demo); shutil.copytree(os.path.join(out_dir, "demo"), demo)
    gm = open(os.path.join(demo, "go.mod")).read()
    gm = re.sub(r"=> /tmp/wt/\S+", "=> " + wt, gm)
    open(os.path.join(demo, "go.mod"), "w").write(gm)
    rc, o = run(["go", "test", "-count=1", "./..."], demo); res["demo_with_change_fails"] = rc != 0
    with_out = o[-1500:]
    run(["git", "reset", "--hard", "-q"], wt)
    rc, o = run(["go", "test", "-count=1", "./..."], demo); res["demo_without_change_passes"] = rc == 0
    without_out = o[-800:]
    shutil.rmtree(demo, ignore_errors=True)
    ok = all([res["applies"], res["builds"], res["test_binaries_build"], res["baseline_ok"], res["demo_with_change_fails"], res["demo_without_change_passes"]])
    res["confirmed"] = ok
    print(json.dumps(res, indent=1))
    if not ok:
        print("WITH:\n", with_out, "\nWITHOUT:\n", without_out)
        sys.exit(1)
    dest = os.path.join("/verif/seeded", name)
    shutil.rmtree(dest, ignore_errors=True)
    os.makedirs(dest)
    open(os.path.join(dest, "patch.diff"), "w").write(newpatch)
    shutil.copytree(os.path.join(out_dir, "demo"), os.path.join(dest, "demo"))
    if os.path.exists(os.path.join(out_dir, "notes.md")):
        shutil.copy(os.path.join(out_dir, "notes.md"), dest)
    notes = open(os.path.join(out_dir, "notes.md")).read() if os.path.exists(os.path.join(out_dir, "notes.md")) else ""
    res["what_i_ran"] = ["git apply patch.diff on a fresh worktree of /repo HEAD " + head, "go build ./... ; go test -vet=off -count=1 -run '^$' ./...",
                         "python3 /verif/tools/baseline.py <worktree>  (109/109)", "demo: go test -count=1 ./... with the patch (fails) and without (passes)"]
    res["needs_to_manifest"] = ""
    res["detected_by"] = []
    json.dump(res, open(os.path.join(dest, "meta.json"), "w"), indent=1)
finally:
    run(["git", "-C", "/repo", "worktree", "remove", "--force", wt], "/repo")
    shutil.rmtree(wt, ignore_errors=True)
