#!/usr/bin/env python3
"""Write SENSITIVITY.md (kill matrix) from seeded/*/meta.json."""
import json, os, glob
ROOT = os.path.dirname(os.path.dirname(os.path.abspath(__file__)))
rows = []
for d in sorted(glob.glob(os.path.join(ROOT, "seeded", "*"))):
    m = json.load(open(os.path.join(d, "meta.json")))
    rows.append(m)
out = ["# Sensitivity: seeded changes vs checks", "",
       "Every row is a change to dave/dst written by a sub-agent that saw only the property text, confirmed by",
       "`tools/confirm_seeded.py` (applies, builds, baseline 109/109, demo fails with / passes without) and run with",
       "`tools/run_seeded.py` (patch applied to a scratch worktree, checks run with VERIF_REPO; quick tier, seed 1).",
       "`detected by` lists every check that reported a VIOLATION; `missed by` the checks that ran and stayed green.", "",
       "| change | breaks | files / what it needs to manifest | detected by | missed by |", "|---|---|---|---|---|"]
det = 0
for m in rows:
    runs = m.get("runs", {})
    d = sorted({k.split(":")[0] for k, v in runs.items() if v["verdict"] == "DETECTED"})
    miss = sorted({k.split(":")[0] for k, v in runs.items() if v["verdict"] == "MISSED"} - set(d))
    if d:
        det += 1
    t = {k.split(":")[0]: v["wall_s"] for k, v in runs.items() if v["verdict"] == "DETECTED"}
    ds = ", ".join(f"{x} ({t[x]} s)" for x in d) or "—"
    out.append(f"| {m['name']} | {m['property']} | {m.get('needs_to_manifest','')} | {ds} | {', '.join(miss) or '—'} |")
out += ["", f"{det} of {len(rows)} seeded changes are detected by at least one check in the quick tier."]
open(os.path.join(ROOT, "SENSITIVITY.md"), "w").write("\n".join(out) + "\n")
print(f"{det}/{len(rows)} detected")
