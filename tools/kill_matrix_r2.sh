#!/bin/bash
cd /verif
for d in seeded/R2*/; do
  name=$(basename $d)
  prop=$(python3 -c "import json;print(json.load(open('$d/meta.json'))['property'])")
  python3 tools/run_seeded.py $name $prop 2>&1 | grep -E "vs C[0-9]+ "
done
